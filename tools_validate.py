#!/usr/bin/env python3
# validate MANIFEST.json and evidence/*.json against the schemas (needs python3-vt's jsonschema)
import json, sys, glob, jsonschema
ok = True
m = json.load(open('/verif/MANIFEST.json'))
jsonschema.validate(m, json.load(open('/root/.vp/MANIFEST.schema.json')))
print('MANIFEST ok: %d checks, %d not_applicable' % (len(m['checks']), len(m.get('not_applicable', []))))
es = json.load(open('/root/.vp/EVIDENCE.schema.json'))
for f in sorted(glob.glob('/verif/evidence/*.json')):
    try:
        ev = json.load(open(f)); jsonschema.validate(ev, es)
        print(f, 'ok', ev['tier'], ev['coverage'].get('evaluations'), ev['coverage'].get('distinct_nontrivial'), ev['wall_s'], 'viol', ev.get('violations'))
    except Exception as e:
        ok = False; print(f, 'INVALID', str(e)[:300])
sys.exit(0 if ok else 1)
