#!/usr/bin/env python3
# Regenerates MANIFEST.json from engine/registry.py (single source of truth for what is claimed).
import json, os, sys
ROOT = os.path.dirname(os.path.abspath(__file__))
sys.path.insert(0, os.path.join(ROOT, 'engine'))
from registry import PROPS, NOT_APPLICABLE, HOOK_COMMITS  # noqa

ids = [json.loads(l)['id'] for l in open(os.path.join(ROOT, 'properties.jsonl'))]
checks = []
for pid in ids:
    if pid not in PROPS:
        continue
    P = PROPS[pid]
    checks.append(dict(
        property_id=pid,
        quick_cmd='./check %s --tier quick' % pid,
        thorough_cmd='./check %s --tier thorough' % pid,
        evidence_file='/verif/evidence/%s.json' % pid,
        replay_cmd_template='./check %s --replay {path}' % pid,
        engine=P.get('engine', 'rapidcheck harness (engine/pbt.hpp) driven by ./check'),
        level_claimed=dict(category=P.get('level', 'exploration'), text=P['level_text'], design_ref=P.get('design_ref', 'DESIGN.md section 2, ' + pid)),
        level_note=P['level_note'],
        technique=P['technique'],
    ))
na = [dict(property_id=k, reason=v) for k, v in NOT_APPLICABLE.items() if k not in PROPS]
for pid in ids:
    if pid not in PROPS and pid not in NOT_APPLICABLE:
        na.append(dict(property_id=pid, reason='check not built yet in this session (work in progress; see DESIGN.md section 2 for the planned check)'))
m = dict(
    version=1,
    setup_cmd='./setup.sh',
    hooks=dict(guard='GOLDILOCKS_VERIF', enable='no source hooks are needed: every property is observable through the public API, the -D__AVX512__ configuration, a link-time OpenMP runtime stand-in and a source-text translator',
               baseline_off_cmd='cd /repo && make -B testcpu && ./testcpu', source_commits=HOOK_COMMITS, add_only=True),
    engines=[
        dict(name='pbt', path='engine/pbt.hpp', serves_properties=sorted(PROPS), kind_free_text='rapidcheck property runner: explicit seeds and case counts, shrinking, fork-per-case crash capture, measured class/distinct counters, replay files'),
        dict(name='gen', path='engine/gen.hpp', serves_properties=sorted(PROPS), kind_free_text='boundary-directed and solved-operand generators for 64-bit field representations'),
        dict(name='ref', path='engine/ref.hpp', serves_properties=sorted(PROPS), kind_free_text='independent reference model: u128 Z/p, cubic extension, naive DFT / recursive FFT, Horner, Poseidon'),
    ],
    checks=checks,
    not_applicable=na,
    notes='Property-based testing / fuzzing only. ./check <ID> rebuilds harnesses from /repo working tree (content-hashed cache in build/). VERIF_SEED and VERIF_TIER are honoured. known_findings.txt lists fixed/open findings.',
)
json.dump(m, open(os.path.join(ROOT, 'MANIFEST.json'), 'w'), indent=1)
print('MANIFEST.json: %d checks, %d not_applicable' % (len(checks), len(na)))
