// C12 — parallel regions are race-free; results independent of the thread count and of the schedule.
// Built against engine/ompshim.cpp (the harness owns the schedule):
//   * sequential mode: members of every team run one after another in a generated order -> output must be
//     bit-identical to the single-member execution
//   * thread mode under -fsanitize=thread: members are pthreads created by the shim -> zero TSan reports and
//     bit-identical output
// and against the real libgomp (no shim): team sizes {1,2,3,5,8,16,33} -> bit-identical output.
#include "../engine/pbt.hpp"
#include "../engine/gen.hpp"
#include "../engine/ref_poseidon.hpp"
#include "goldilocks_base_field.hpp"
#include "ntt_goldilocks.hpp"
#include "poseidon_goldilocks.hpp"
#include "merklehash_goldilocks.hpp"
#include <set>
#include <map>
#define PBT_NO_MAIN
namespace nt {
#include "h_ntt.cpp"
}
namespace ps {
#include "h_poseidon.cpp"
}

using pbt::Case; using pbt::Ctx;
typedef Goldilocks::Element E;
extern "C" void pbt_shim_config(int mode, uint64_t orderseed) __attribute__((weak));
extern "C" void pbt_shim_cap(int cap) __attribute__((weak));
extern "C" void pbt_shim_stats(uint64_t *regions, uint64_t *multi, uint64_t *maxteam, int reset) __attribute__((weak));
static int g_mode = 0; // 0 sequential permuted orders (shim), 1 pthreads (shim, TSan), 2 real libgomp
static std::string hx(uint64_t x) { char b[32]; snprintf(b, sizeof b, "0x%llx", (unsigned long long)x); return b; }

static void config(uint64_t orderseed) { if (pbt_shim_config) pbt_shim_config(g_mode == 1 ? 1 : 0, orderseed); }

// payload: [routine, team, orderseed, sub-payload...]
//   routine 0: transform (sub-payload = h_ntt call payload, 14 words; its nThreads field is overridden by team)
//   routine 1: Merkle builder (sub-payload = [variant, logrows, cols, dim, batch, _, seed])
//   routine 2: parcpy / parSetZero (sub-payload = [which, size, _, seed])
static std::vector<uint64_t> run_routine(const Case &c, int team, std::string &why, bool oracle)
{
    int routine = (int)c.v[0];
    std::vector<uint64_t> sub(c.v.begin() + 3, c.v.end());
    std::vector<uint64_t> out;
    if (routine == 0) {
        nt::Cfg cfg = nt::cfg_of(sub);
        cfg.nth = team;
        NTT_Goldilocks g(1ull << cfg.lm, team);
        nt::CallResult r = nt::run_call(g, cfg, oracle);
        if (!r.ok) { why = nt::cfg_str(cfg) + " :: " + r.why; return out; }
        return r.raw;
    } else if (routine == 1) {
        int variant = (int)sub[0]; uint64_t rows = 1ull << sub[1], cols = sub[2], dim = sub[3], batch = sub[4] ? sub[4] : 1, seed = sub[6];
#ifndef __AVX512__
        if (variant == ps::V_AVX512) variant = ps::V_AVX; if (variant == ps::V_BAVX512) variant = ps::V_BAVX;
#endif
        std::vector<E> in(rows * cols * dim + 1);
        for (uint64_t i = 0; i + 1 < in.size(); i++) in[i].fe = ps::hashed_elem(seed, i);
        uint64_t nel = MerklehashGoldilocks::getTreeNumElements(rows);
        std::vector<E> tree(nel);
        for (auto &x : tree) x.fe = 0xDDDDDDDDDDDDDDDDull;
        switch (variant) {
        case ps::V_SEQ: PoseidonGoldilocks::merkletree_seq(tree.data(), in.data(), cols, rows, team, dim); break;
        case ps::V_AVX: PoseidonGoldilocks::merkletree_avx(tree.data(), in.data(), cols, rows, team, dim); break;
        case ps::V_BSEQ: PoseidonGoldilocks::merkletree_batch_seq(tree.data(), in.data(), cols, rows, batch, team, dim); break;
        case ps::V_BAVX: PoseidonGoldilocks::merkletree_batch_avx(tree.data(), in.data(), cols, rows, batch, team, dim); break;
        case ps::V_WRAP: PoseidonGoldilocks::merkletree(tree.data(), in.data(), cols, rows, team, dim); break;
        case ps::V_BWRAP: PoseidonGoldilocks::merkletree_batch(tree.data(), in.data(), cols, rows, batch, team, dim); break;
#ifdef __AVX512__
        case ps::V_AVX512: PoseidonGoldilocks::merkletree_avx512(tree.data(), in.data(), cols, rows, team, dim); break;
        case ps::V_BAVX512: PoseidonGoldilocks::merkletree_batch_avx512(tree.data(), in.data(), cols, rows, batch, team, dim); break;
#endif
        }
        out.resize(nel);
        for (uint64_t i = 0; i < nel; i++) out[i] = tree[i].fe;
        return out;
    } else {
        int which = (int)(sub[0] & 1); uint64_t size = sub[1], seed = sub[3];
        std::vector<E> src(size + 1), dst(size + 16);
        for (uint64_t i = 0; i < size; i++) src[i].fe = pbt::mix(seed, i);
        for (auto &x : dst) x.fe = 0xEEEEEEEEEEEEEEEEull;
        if (which == 0) Goldilocks::parcpy(dst.data(), src.data(), size, team); else Goldilocks::parSetZero(dst.data(), size, team);
        out.resize(size + 16);
        for (uint64_t i = 0; i < size + 16; i++) out[i] = dst[i].fe;
        if (oracle) for (uint64_t i = 0; i < size + 16; i++) { uint64_t w = i < size ? (which == 0 ? pbt::mix(seed, i) : 0) : 0xEEEEEEEEEEEEEEEEull; if (out[i] != w) { why = "parcpy/parSetZero single-member execution wrong at " + std::to_string(i); out.clear(); return out; } }
        return out;
    }
}
static bool body_par(const Case &c, Ctx &ctx)
{
    int routine = (int)c.v[0], team = (int)c.v[1]; uint64_t orderseed = c.v[2];
    static const char *rn[] = {"routine:transform", "routine:merkle", "routine:parcpy/parSetZero"};
    ctx.cls(rn[routine]);
    std::string why;
    // cold start (property c12.cold, one forked child per case): the TEAM execution is the very first library call of the process, so that
    // anything initialised lazily on first use is initialised by concurrent members; the single-member reference comes afterwards
    const bool cold = c.prop == "c12.cold";
    std::vector<uint64_t> ref1;
    if (!cold) {
    // reference: single-member execution (also checked against the mathematical oracle for the transforms)
    config(0);
    ref1 = run_routine(c, 1, why, true);
    if (!why.empty()) return ctx.fail("single-member execution: " + why);
    } else ctx.cls("cold-start:team-run-first");
    if (pbt_shim_stats) pbt_shim_stats(nullptr, nullptr, nullptr, 1);
    config(orderseed);
    // delivered team size: in 1 of 4 cases the runtime delivers fewer members than requested (cap derived from the order seed)
    int cap = 0;
    if (pbt_shim_cap && team > 1 && (orderseed >> 8) % 4 == 0 && orderseed > 1) { cap = 1 + (int)((orderseed >> 16) % (uint64_t)(team - 1)); pbt_shim_cap(cap); ctx.cls("team:fewer-members-delivered-than-requested"); }
    std::vector<uint64_t> got = run_routine(c, team, why, false);
    if (pbt_shim_cap) pbt_shim_cap(0);
    if (!why.empty()) return ctx.fail("team of " + std::to_string(team) + ": " + why);
    uint64_t regions = 0, multi = 0, maxteam = 0;
    if (pbt_shim_stats) pbt_shim_stats(&regions, &multi, &maxteam, 0);
    if (cold) { config(0); ref1 = run_routine(c, 1, why, true); if (!why.empty()) return ctx.fail("single-member execution (after the cold team run): " + why); }
    (void)cap;
    if (team > 1 && (multi > 0 || !pbt_shim_stats)) { ctx.nt(g_mode == 0 ? "team>1:sequential-permuted-order" : g_mode == 1 ? "team>1:pthreads(TSan)" : "team>1:real-libgomp"); }
    else ctx.cls("team=1-or-no-parallel-region");
    if (orderseed == 0) ctx.cls("order:identity"); else if (orderseed == 1) ctx.cls("order:reversed"); else ctx.cls("order:random-permutation");
    if (team > 16) ctx.cls("team:more-members-than-cores/iterations");
    if (routine == 0 && c.v.size() > 3 + 7) { nt::Cfg q = nt::cfg_of(std::vector<uint64_t>(c.v.begin() + 3, c.v.end()));
        uint64_t nb = q.nblock < 1 ? 1 : (q.nblock > q.ncols ? q.ncols : q.nblock);
        if (q.dst != 1 && nb == 1 && nt::eff_phase(q.nphase, q.kind == nt::K_EXT ? q.le : q.ln) % 2 == 0 && q.ln != nt::SIZE0 && q.ln >= 2) ctx.cls("transform:in-place-bit-reversal-path");
        if (q.ncols > 1024) ctx.cls("transform:ncols>1024"); }
    if (got != ref1) {
        size_t k = 0; while (k < got.size() && k < ref1.size() && got[k] == ref1[k]) k++;
        return ctx.fail(std::string(rn[routine]) + " team=" + std::to_string(team) + " orderseed=" + hx(orderseed) + ": output differs from the single-member execution at word " + std::to_string(k) + " (" + (k < got.size() ? hx(got[k]) : "-") + " vs " + (k < ref1.size() ? hx(ref1[k]) : "-") + ")");
    }
    return true;
}
static std::string desc_par(const Case &c)
{
    std::vector<uint64_t> sub(c.v.begin() + 3, c.v.end());
    std::string s = c.prop + " team=" + std::to_string(c.v[1]) + " orderseed=" + hx(c.v[2]) + " ";
    if (c.v[0] == 0) s += nt::cfg_str(nt::cfg_of(sub));
    else if (c.v[0] == 1) s += std::string(ps::VN[sub[0] % ps::NVAR]) + " rows=2^" + std::to_string(sub[1]) + " cols=" + std::to_string(sub[2]) + " dim=" + std::to_string(sub[3]) + " batch=" + std::to_string(sub[4]);
    else s += std::string(sub[0] & 1 ? "parSetZero" : "parcpy") + " size=" + std::to_string(sub[1]);
    return s;
}
static rc::Gen<std::vector<uint64_t>> gen_par(int routine)
{
    return rc::gen::exec([routine] {
        int team = *rc::gen::weightedOneOf<int>({{6, rc::gen::elementOf(std::vector<int>{2, 3, 4, 5, 6, 8, 17})}, {1, rc::gen::just(1)}, {1, rc::gen::just(g_mode == 2 ? 33 : 64)}, {1, g::irange(2, 16)}});
        uint64_t orderseed = *rc::gen::weightedOneOf<uint64_t>({{1, rc::gen::just<uint64_t>(0)}, {1, rc::gen::just<uint64_t>(1)}, {6, g::uni64()}});
        std::vector<uint64_t> v{(uint64_t)routine, (uint64_t)team, orderseed};
        std::vector<uint64_t> sub;
        if (routine == 0) { sub = *nt::gen_call(-1, 9, 5);
            /* a quarter of the transform cases aim at the in-place bit reversal (even phase count, one block, in place): the only region whose
               iterations swap rows through a per-iteration temporary; half of those on wide matrices (row temporaries depend on the column count) */
            if (*g::irange(0, 3) == 0) {
                sub[5] = *rc::gen::elementOf(std::vector<uint64_t>{2, 4, 6}); sub[6] = *rc::gen::elementOf(std::vector<uint64_t>{0, 1});
                sub[7] = (sub[0] == nt::K_EXT) ? 0 : (uint64_t)(2 * *g::irange(0, 1));
                if (sub[2] == nt::SIZE0 || sub[2] < 2) { sub[2] = 2 + (uint64_t)*g::irange(0, 3); sub[3] = sub[2] + (sub[0] == nt::K_EXT ? (uint64_t)*g::irange(0, 2) : 0); if (sub[1] < sub[2]) sub[1] = sub[2]; }
                if (*g::irange(0, 1)) sub[4] = *rc::gen::elementOf(std::vector<uint64_t>{64, 65, 1024, 1025, 1100});
            }
            /* wide matrices: keep the domain small (TSan cost) */
            if (sub[4] >= 64 && sub[2] > 4 && sub[2] != nt::SIZE0) { sub[3] -= (sub[2] - 4); sub[2] = 4; if (sub[1] < sub[2]) sub[1] = sub[2]; } if (sub[0] > 2) sub[0] = sub[0] % 3; if (sub[0] == nt::K_EXT && sub[7] == 2) sub[7] = 0; if (sub[0] == nt::K_EXT) sub[3] = std::max(sub[3], sub[2]); if (sub[0] == nt::K_EXT && sub[4] == 0) sub[4] = 1;
        /* real threads under ThreadSanitizer (--mode threads): every region creates its members anew, so the cost of a case is about
           (column blocks) x (regions per block) x team thread creations; a 1024-column matrix cut into 1024 blocks with a team of 64 took five
           minutes -- keep blocks x team bounded there (the sequential stand-in and the real runtime keep the full ranges) */
        if (g_mode == 1 && sub[4] >= 64) { if (team > 8) { team = 2 + team % 7; v[1] = (uint64_t)team; } if (sub[6] > 16) sub[6] = (uint64_t)*rc::gen::elementOf(std::vector<uint64_t>{1, 2, 3, 16}); } }
        else if (routine == 1) { sub = {(uint64_t)*g::irange(0, ps::NVAR - 1), (uint64_t)*g::irange(0, 6), *g::range(0, 20), (uint64_t)*g::irange(1, 3), *g::range(1, 24), 0, *g::uni64()}; }
        else { sub = {(uint64_t)*g::irange(0, 1), *rc::gen::weightedOneOf<uint64_t>({{3, g::range(0, 70)}, {2, g::range(0, 5000)}}), 0, *g::uni64()}; }
        v.insert(v.end(), sub.begin(), sub.end());
        return v;
    });
}

int main(int argc, char **argv)
{
    // own flag: --mode seq|threads|gomp (must come first so that harness_main does not see it)
    std::vector<char *> args;
    for (int i = 0; i < argc; i++) {
        if (std::string(argv[i]) == "--mode" && i + 1 < argc) { std::string m = argv[++i]; g_mode = m == "threads" ? 1 : m == "gomp" ? 2 : 0; continue; }
        args.push_back(argv[i]);
    }
    if (g_mode != 2 && !pbt_shim_config) { fprintf(stderr, "h_par: this build is not linked against the OpenMP stand-in; use --mode gomp\n"); return 2; }
    if (g_mode == 2 && pbt_shim_config) { fprintf(stderr, "h_par: --mode gomp needs a build linked against libgomp\n"); return 2; }
    std::vector<pbt::PropDef> props = {
        {"c12.transform", [] { return gen_par(0); }, body_par, 5, false, desc_par, 100},
        {"c12.merkle", [] { return gen_par(1); }, body_par, 3, false, desc_par, 100},
        {"c12.par", [] { return gen_par(2); }, body_par, 2, false, desc_par, 100},
        {"c12.cold", [] { return rc::gen::exec([] { auto v = *gen_par(*g::irange(0, 1)); if (v[1] < 2) v[1] = 4; if (v[0] == 1) v[3] = (uint64_t)*rc::gen::elementOf(std::vector<int>{ps::V_SEQ, ps::V_BSEQ, ps::V_AVX, ps::V_WRAP}); return v; }); }, body_par, 0.3, true, desc_par, 100},
    };
    return pbt::harness_main((int)args.size(), args.data(), "h_par", props);
}
