// C16 — every batched / AVX2 / AVX512 cubic-extension variant equals the scalar extension operation on the k-th operands.
// One table row per overload (harness/c16_table.inc, derived from the function heads by tools/gen_c16.py);
// a generic driver interprets the shape spec of a row.
#include "../engine/pbt.hpp"
#include "../engine/gen.hpp"
#include "../engine/guard.hpp"
#include "../engine/statics.hpp"
#include "goldilocks_base_field.hpp"
#include "goldilocks_cubic_extension.hpp"

using pbt::Case; using pbt::Ctx;
typedef Goldilocks::Element E;
static const uint64_t PR = ref::PR;
static std::string hx(uint64_t x) { char b[32]; snprintf(b, sizeof b, "0x%llx", (unsigned long long)x); return b; }
static std::string s3(const ref::E3 &a) { return "(" + hx(a[0]) + "," + hx(a[1]) + "," + hx(a[2]) + ")"; }
#if defined(__SANITIZE_ADDRESS__)
static const bool SAN = true;
#else
static const bool SAN = false;
#endif

enum OpK { OP_ADD, OP_SUB, OP_MUL };
enum Shape { S_ARR, S_ARR_STRIDE, S_ARR_IDX, S_ARR_CONST, S_SCALAR, S_EXTREF, S_REG1, S_REG3, S_REG3S };
enum Aux { AUX_NONE, AUX_ARR, AUX_REG };
struct TB {
    E *c, *a, *b; E as, bs; Goldilocks3::Element aext, bext; uint64_t sa, sb, sc; uint64_t ia[8], ib[8], ic[8]; E auxarr[3];
};
struct T4 : TB { __m256i creg[3], areg[3], breg[3], auxreg[3]; };
#ifdef __AVX512__
struct T8 : TB { __m512i creg[3], areg[3], breg[3], auxreg[3]; };
#endif
struct Row { const char *decl; int line; OpK op; int L; int dA; bool cA; Shape A; int dB; bool cB; Shape B; Shape C; Aux aux; void (*call)(TB &); void (*call_ca)(TB &); void (*call_cb)(TB &); int w32; /* bit 0/1/2: the stride parameter of a / b / c is a 32-bit integer */ };
static const Row ROWS[] = {
#include "c16_table.inc"
};
static const int NROWS = sizeof(ROWS) / sizeof(ROWS[0]);
static const uint64_t SENT = 0x5E47BBBB5E47BBBBull;
static uint64_t other_rep3(uint64_t x) { return x < 0xFFFFFFFFull ? x + PR : x >= PR ? x - PR : x; }
static bool is_arr(Shape s) { return s <= S_ARR_CONST; }

// payload: [row, sa, sb, sc, ia[8], ib[8], ic[8], junk, pool[48]]
enum { P_ROW = 0, P_SA = 1, P_SB = 2, P_SC = 3, P_IA = 4, P_IB = 12, P_IC = 20, P_JUNK = 28, P_POOL = 29, NPOOL = 48, P_LEN = P_POOL + NPOOL };

struct Operand {
    Shape s; int L, dim; std::vector<uint64_t> pos; E *arena = nullptr; uint64_t size = 0;
    std::vector<ref::E3> eff; // effective k-th operand (embedded into the extension)
    guard::Buf gb; bool guarded = false;
    ~Operand() { if (!guarded) free(arena); }
};
static void positions(Operand &o, uint64_t stride, const uint64_t *idx)
{
    o.pos.assign(o.L, 0);
    for (int k = 0; k < o.L; k++)
        o.pos[k] = o.s == S_ARR ? (uint64_t)k * o.dim : o.s == S_ARR_STRIDE ? (uint64_t)k * stride : o.s == S_ARR_IDX ? idx[k] : 0;
    o.size = 0;
    if (is_arr(o.s)) for (int k = 0; k < o.L; k++) o.size = std::max(o.size, o.pos[k] + o.dim);
}
// fills an input operand; designated cells come from the pool, all other cells are junk
static void fill_input(Operand &o, const Case &c, int which, uint64_t junk)
{
    const uint64_t *pool = &c.v[P_POOL + (which ? NPOOL / 2 : 0)];
    const int np = NPOOL / 2;
    o.eff.assign(o.L, ref::E3{0, 0, 0});
    if (o.s == S_ARR_CONST) {
        // constant operands live in ONE persistent 3-word buffer per slot (ending at a guard page): the same pointer is passed on every call of
        // every case while its content changes -- anything keyed on the pointer value (a memo, a cached derived quantity) goes stale at once
        static guard::Buf persist[2];
        if (pbt::in_concurrent()) { o.gb.alloc(3 * sizeof(E)); o.arena = o.gb.as<E>() + (3 - o.dim); o.guarded = true; } // (concurrent callers: every caller its own buffer)
        else {
        if (!persist[which].p) persist[which].alloc(3 * sizeof(E));
        o.arena = persist[which].as<E>() + (3 - o.dim); o.guarded = true; // (base operands: the word(s) right before the guard page)
        }
        for (int i = 0; i < o.dim; i++) o.arena[i].fe = pool[i];
        for (int k = 0; k < o.L; k++) for (int i = 0; i < o.dim; i++) o.eff[k][i] = pool[i];
        return;
    }
    if (is_arr(o.s)) {
        // exact extent: the arena ends at a guard page (ASan build: exact-size malloc), one element past the last designated cell faults
        o.gb.alloc(o.size * sizeof(E)); o.arena = o.gb.as<E>(); o.guarded = true; // exact extent
        if (o.gb.failed) return; // (huge sparse arena refused by the system: the caller skips the case)
        if (!o.gb.sparse) for (uint64_t i = 0; i < o.size; i++) o.arena[i].fe = pbt::mix(junk, i + 1000 * which);
        else for (int k = 0; k < o.L; k++) for (int d = -1; d <= o.dim; d++) { uint64_t i = o.pos[k] + (uint64_t)d; if (i < o.size) o.arena[i].fe = pbt::mix(junk, i + 1000 * which); } // huge extent: junk around the designated cells only
        for (int k = 0; k < o.L; k++) for (int i = 0; i < o.dim; i++) o.arena[o.pos[k] + i].fe = pool[(3 * k + i) % np];
        for (int k = 0; k < o.L; k++) for (int i = 0; i < o.dim; i++) o.eff[k][i] = o.arena[o.pos[k] + i].fe; // overlapping / repeated positions: last write wins
    } else if (o.s == S_SCALAR) { for (int k = 0; k < o.L; k++) o.eff[k] = {pool[0], 0, 0}; }
    else if (o.s == S_EXTREF) { for (int k = 0; k < o.L; k++) o.eff[k] = {pool[0], pool[1], pool[2]}; }
    else if (o.s == S_REG1) { for (int k = 0; k < o.L; k++) o.eff[k] = {pool[k], 0, 0}; }
    else { for (int k = 0; k < o.L; k++) o.eff[k] = {pool[3 * k], pool[3 * k + 1], pool[3 * k + 2]}; }
}
template <typename T, typename V> static void load_regs(T &t, const Operand &A, const Operand &B, const std::vector<ref::E3> &aux, int L, V loadfn)
{
    alignas(64) uint64_t buf[8];
    for (int i = 0; i < 3; i++) {
        for (int k = 0; k < 8; k++) buf[k] = k < L ? A.eff[k][i] : 0; t.areg[i] = loadfn(buf);
        for (int k = 0; k < 8; k++) buf[k] = k < L ? B.eff[k][i] : 0; t.breg[i] = loadfn(buf);
        for (int k = 0; k < 8; k++) buf[k] = k < L ? aux[k][i] : 0; t.auxreg[i] = loadfn(buf);
        for (int k = 0; k < 8; k++) buf[k] = SENT; t.creg[i] = loadfn(buf);
    }
}

static bool run_row(const Row &r, const Case &c, uint64_t junk, std::vector<ref::E3> &out, std::string &why, int alias = 0, bool probe_statics = false)
{
    const int L = r.L;
    Operand A, B, C; A.s = r.A; B.s = r.B; C.s = r.C; A.L = B.L = C.L = L; A.dim = r.dA; B.dim = r.dB; C.dim = 3;
    positions(A, c.v[P_SA], &c.v[P_IA]); positions(B, c.v[P_SB], &c.v[P_IB]); positions(C, c.v[P_SC], &c.v[P_IC]);
    const bool big = (A.s == S_ARR_STRIDE && c.v[P_SA] >= (1ull << 32)) || (B.s == S_ARR_STRIDE && c.v[P_SB] >= (1ull << 32)) || (C.s == S_ARR_STRIDE && c.v[P_SC] >= (1ull << 32));
    const bool shared = !big && !alias && ((c.v[P_JUNK] >> 40) & 7) == 1 && is_arr(A.s) && is_arr(B.s) && A.s != S_ARR_CONST && B.s != S_ARR_CONST;
    if (shared) {
        // both inputs are given by the SAME base pointer (one array, two strides / index lists): junk, then the a-values, then the b-values
        const uint64_t *pa = &c.v[P_POOL], *pb = &c.v[P_POOL + NPOOL / 2]; const int np = NPOOL / 2;
        uint64_t sz = std::max(A.size, B.size); A.size = sz;
        A.gb.alloc(sz * sizeof(E)); A.arena = A.gb.as<E>(); A.guarded = true;
        for (uint64_t i = 0; i < sz; i++) A.arena[i].fe = pbt::mix(junk, i);
        for (int k = 0; k < L; k++) for (int i = 0; i < A.dim; i++) A.arena[A.pos[k] + i].fe = pa[(3 * k + i) % np];
        for (int k = 0; k < L; k++) for (int i = 0; i < B.dim; i++) A.arena[B.pos[k] + i].fe = pb[(3 * k + i) % np];
        A.eff.assign(L, ref::E3{0, 0, 0}); B.eff.assign(L, ref::E3{0, 0, 0});
        for (int k = 0; k < L; k++) { for (int i = 0; i < A.dim; i++) A.eff[k][i] = A.arena[A.pos[k] + i].fe; for (int i = 0; i < B.dim; i++) B.eff[k][i] = A.arena[B.pos[k] + i].fe; }
        B.arena = A.arena; B.guarded = true; B.size = 0;
    } else {
    fill_input(A, c, 0, junk); fill_input(B, c, 1, junk ^ 0xB0B);
    }
    if (A.gb.failed || B.gb.failed) { why = "SKIP"; return true; }
    std::vector<uint64_t> a0, b0;
    if (A.arena && !A.gb.sparse) { a0.resize(A.size); for (uint64_t i = 0; i < A.size; i++) a0[i] = A.arena[i].fe; }
    if (B.arena && !B.gb.sparse) { b0.resize(B.size); for (uint64_t i = 0; i < B.size; i++) b0[i] = B.arena[i].fe; }
    uint64_t guard = SAN ? 0 : 8;
    const bool csparse = is_arr(C.s) && C.size * sizeof(E) >= ((size_t)1 << 26);
    if (csparse) { guard = 0; C.gb.alloc(C.size * sizeof(E)); C.arena = C.gb.as<E>(); C.guarded = true;
        if (C.gb.failed || A.gb.failed || B.gb.failed) { why = "SKIP"; return true; }
        for (int k = 0; k < L; k++) for (int d = -2; d <= 4; d++) { uint64_t i = C.pos[k] + (uint64_t)d; if (i < C.size) C.arena[i].fe = SENT + i; }
    } else if (is_arr(C.s) && (junk & 2)) { // exact extent ending at an inaccessible page (the other run of the case has sentinel cells after the extent instead)
        guard = 0; C.gb.alloc(C.size * sizeof(E)); C.arena = C.gb.as<E>(); C.guarded = true; for (uint64_t i = 0; i < C.size; i++) C.arena[i].fe = SENT + i;
    } else
    if (is_arr(C.s)) { C.arena = (E *)malloc((C.size + guard) * sizeof(E)); for (uint64_t i = 0; i < C.size + guard; i++) C.arena[i].fe = SENT + i; }
    if (A.gb.failed || B.gb.failed || C.gb.failed) { why = "SKIP"; return true; } // huge sparse arena refused by the system: no verdict for this case
    // precomputed "challenge sums" of the second operand: (b0+b1, b0+b2, b1+b2), now and then as non-canonical representatives
    std::vector<ref::E3> aux(L);
    for (int k = 0; k < L; k++) {
        aux[k] = {ref::add(B.eff[k][0], B.eff[k][1]), ref::add(B.eff[k][0], B.eff[k][2]), ref::add(B.eff[k][1], B.eff[k][2])};
        if (junk & 1) for (int i = 0; i < 3; i++) if (aux[k][i] < 0xFFFFFFFFull) aux[k][i] += PR;
    }
    T4 t4; TB *t = &t4;
#ifdef __AVX512__
    T8 t8; if (L == 8) t = &t8;
#endif
    t->c = C.arena; t->a = A.arena; t->b = B.arena;
    t->as.fe = A.eff[0][0]; t->bs.fe = B.eff[0][0];
    for (int i = 0; i < 3; i++) { t->aext[i].fe = A.eff[0][i]; t->bext[i].fe = B.eff[0][i]; t->auxarr[i].fe = aux[0][i]; }
    t->sa = c.v[P_SA]; t->sb = c.v[P_SB]; t->sc = c.v[P_SC];
    for (int k = 0; k < 8; k++) { t->ia[k] = c.v[P_IA + k]; t->ib[k] = c.v[P_IB + k]; t->ic[k] = c.v[P_IC + k]; }
    if (L == 4) load_regs(t4, A, B, aux, L, [](const uint64_t *p) { return _mm256_load_si256((const __m256i *)p); });
#ifdef __AVX512__
    else load_regs(t8, A, B, aux, L, [](const uint64_t *p) { return _mm512_load_si512((const void *)p); });
#endif
    // every 8th case (second run of the row only: never the first call of a routine) the static storage of the process is checksummed
    // right before and right after the call: a routine must not write anywhere but its designated outputs
    static thread_local uint64_t g_static_probe = 0;
    static thread_local std::vector<uint32_t> row_calls(NROWS, 0);
    const uint32_t ncalls = row_calls[&r - ROWS]++;   // the first call of a routine is never measured (one-time initialisation is legitimate)
    const bool probe = !SAN && !pbt::in_concurrent() && probe_statics && ncalls >= 1 && ((++g_static_probe & 7) == 0); // (not in sanitizer builds: their runtime keeps bookkeeping in the executable's own data segment)
    uint64_t cs0 = probe ? statics::checksum() : 0;
    if (alias == 0) r.call(*t); else if (alias == 1) r.call_ca(*t); else r.call_cb(*t);
    if (probe && statics::checksum() != cs0) { why = "wrote to static storage of the process (a hidden buffer or memo): memory other than the designated output positions changed during the call"; return false; }
    out.assign(L, ref::E3{0, 0, 0});
    if (alias) {
        // in-place call: the result is delivered in the first (alias 1) / second (alias 2) operand's own storage
        Operand &X = alias == 1 ? A : B;
        if (is_arr(C.s)) { for (int k = 0; k < L; k++) for (int i = 0; i < 3; i++) out[k][i] = X.arena[3 * k + i].fe; }
        else {
            alignas(64) uint64_t buf[8];
            for (int i = 0; i < 3; i++) {
                if (L == 4) _mm256_store_si256((__m256i *)buf, alias == 1 ? t4.areg[i] : t4.breg[i]);
#ifdef __AVX512__
                else _mm512_store_si512((void *)buf, alias == 1 ? t8.areg[i] : t8.breg[i]);
#endif
                for (int k = 0; k < L; k++) out[k][i] = buf[k];
            }
        }
        for (int k = 0; k < L; k++) {
            ref::E3 want = r.op == OP_ADD ? ref::add3(A.eff[k], B.eff[k]) : r.op == OP_SUB ? ref::sub3(A.eff[k], B.eff[k]) : ref::mul3(A.eff[k], B.eff[k]);
            if (ref::can3(out[k]) != want) { why = std::string("in-place call (the result is the ") + (alias == 1 ? "first" : "second") + " operand's own storage): element " + std::to_string(k) + ": got " + s3(ref::can3(out[k])) + " want " + s3(want) + " (a=" + s3(A.eff[k]) + " b=" + s3(B.eff[k]) + ")"; return false; }
        }
        return true;
    }
    if (is_arr(C.s)) { for (int k = 0; k < L; k++) for (int i = 0; i < 3; i++) out[k][i] = C.arena[C.pos[k] + i].fe; }
    else {
        alignas(64) uint64_t buf[8];
        for (int i = 0; i < 3; i++) {
            if (L == 4) _mm256_store_si256((__m256i *)buf, t4.creg[i]);
#ifdef __AVX512__
            else _mm512_store_si512((void *)buf, t8.creg[i]);
#endif
            for (int k = 0; k < L; k++) out[k][i] = buf[k];
        }
    }
    for (int k = 0; k < L; k++) {
        ref::E3 want = r.op == OP_ADD ? ref::add3(A.eff[k], B.eff[k]) : r.op == OP_SUB ? ref::sub3(A.eff[k], B.eff[k]) : ref::mul3(A.eff[k], B.eff[k]);
        if (ref::can3(out[k]) != want) { why = "element " + std::to_string(k) + ": got " + s3(ref::can3(out[k])) + " want " + s3(want) + " (a=" + s3(A.eff[k]) + " b=" + s3(B.eff[k]) + ")"; return false; }
    }
    if (C.arena && csparse) {
        for (int k = 0; k < L; k++) for (int d = -2; d <= 4; d++) { uint64_t i = C.pos[k] + (uint64_t)d; bool des = false; for (int q = 0; q < L; q++) if (i >= C.pos[q] && i < C.pos[q] + 3) des = true;
            if (i < C.size && !des && C.arena[i].fe != SENT + i) { why = "wrote output position " + std::to_string(i) + " which its strides do not designate"; return false; } }
    } else if (C.arena) {
        std::vector<bool> des(C.size + guard, false);
        for (int k = 0; k < L; k++) for (int i = 0; i < 3; i++) des[C.pos[k] + i] = true;
        for (uint64_t i = 0; i < C.size + guard; i++) if (!des[i] && C.arena[i].fe != SENT + i) { why = "wrote output position " + std::to_string(i) + " which its strides do not designate"; return false; }
    }
    if (A.arena && !A.gb.sparse && !a0.empty()) for (uint64_t i = 0; i < A.size; i++) if (A.arena[i].fe != a0[i]) { why = shared ? "modified its input array" : "modified its first input operand"; return false; }
    if (B.arena && !B.gb.sparse && !b0.empty()) for (uint64_t i = 0; i < B.size; i++) if (B.arena[i].fe != b0[i]) { why = "modified its second input operand"; return false; }
    return true;
}
static const char *SN[] = {"array", "array+stride", "array+index", "const-array", "scalar", "const-ext-ref", "register", "planar-registers", "3-registers"};
static bool body_row(const Case &c, Ctx &ctx)
{
    const Row &r = ROWS[c.v[P_ROW] % NROWS];
    ctx.cls(r.decl);
    bool nt = false;
    auto st = [&](Shape s, uint64_t stv, const uint64_t *idx, int dim, bool out) {
        if (s == S_ARR_STRIDE && stv != 1 && stv != 3) { nt = true; ctx.cls(stv == 0 ? "shape:stride-0" : stv < (uint64_t)dim ? "shape:overlapping-input-stride" : stv >= (1ull << 32) ? "shape:stride>=2^32" : stv >= 61 ? "shape:large-stride" : "shape:stride-not-1-or-3"); }
        if (s == S_ARR_IDX) { bool id = true; for (int i = 0; i < r.L; i++) if (idx[i] != (uint64_t)i * dim) id = false; if (!id) { nt = true; ctx.cls(out ? "shape:permuted/sparse-output-index" : "shape:permuted/sparse-input-index"); } }
    };
    st(r.A, c.v[P_SA], &c.v[P_IA], r.dA, false); st(r.B, c.v[P_SB], &c.v[P_IB], r.dB, false); st(r.C, c.v[P_SC], &c.v[P_IC], 3, true);
    for (int i = 0; i < NPOOL; i++) if (c.v[P_POOL + i] >= PR) { nt = true; ctx.cls("shape:non-canonical-operand"); break; }
    if (r.aux != AUX_NONE) ctx.cls("shape:challenge-sums-operand");
    if (((c.v[P_JUNK] >> 40) & 7) == 1 && is_arr(r.A) && is_arr(r.B) && r.A != S_ARR_CONST && r.B != S_ARR_CONST) { nt = true; ctx.cls("shape:both-inputs-one-array(same-pointer)"); }
    { bool rel = false; const uint64_t *pb = &c.v[P_POOL + NPOOL / 2]; if (pb[1] % PR && ref::add(pb[1], pb[2]) == 0) rel = true; if (rel) ctx.cls("data:b1+b2==0"); }
    ctx.nontrivial = nt;
    std::vector<ref::E3> o1, o2; std::string why;
    std::string head = std::string(r.decl) + " [A=" + SN[r.A] + "/dim" + std::to_string(r.dA) + " B=" + SN[r.B] + "/dim" + std::to_string(r.dB) + " -> " + SN[r.C] + "] strides a,b,c=" + std::to_string(c.v[P_SA]) + "," + std::to_string(c.v[P_SB]) + "," + std::to_string(c.v[P_SC]);
    why.clear();
    if (!run_row(r, c, c.v[P_JUNK], o1, why, 0, true)) return ctx.fail(head + ": " + why);
    if (why == "SKIP") { ctx.cls("shape:huge-arena-refused-by-the-system(case-skipped)"); return true; }
    if (!run_row(r, c, ~c.v[P_JUNK], o2, why)) return ctx.fail(head + ": " + why);
    for (int k = 0; k < r.L; k++) if (ref::can3(o1[k]) != ref::can3(o2[k])) return ctx.fail(head + ": result depends on input cells that its strides do not designate");
    // in-place forms (accumulate usage: x = x*b, y = a*y), wherever the output has the shape of an operand
    if (r.call_ca) { ctx.cls("shape:in-place(result==first-operand)"); if (!run_row(r, c, c.v[P_JUNK], o2, why, 1)) return ctx.fail(head + ": " + why); }
    if (r.call_cb) { ctx.cls("shape:in-place(result==second-operand)"); if (!run_row(r, c, c.v[P_JUNK], o2, why, 2)) return ctx.fail(head + ": " + why); }
    return true;
}
static std::string desc_row(const Case &c)
{
    const Row &r = ROWS[c.v[P_ROW] % NROWS];
    std::string s = c.prop + " " + r.decl + " strides a,b,c=" + std::to_string(c.v[P_SA]) + "," + std::to_string(c.v[P_SB]) + "," + std::to_string(c.v[P_SC]) + " ia=[";
    for (int k = 0; k < r.L; k++) s += (k ? "," : "") + std::to_string(c.v[P_IA + k]);
    s += "] ib=[";
    for (int k = 0; k < r.L; k++) s += (k ? "," : "") + std::to_string(c.v[P_IB + k]);
    s += "] ic=[";
    for (int k = 0; k < r.L; k++) s += (k ? "," : "") + std::to_string(c.v[P_IC + k]);
    s += "] pool=[";
    for (int k = 0; k < 6; k++) s += (k ? "," : "") + hx(c.v[P_POOL + k]);
    return s + ",...]";
}
static rc::Gen<std::vector<uint64_t>> gen_idx(bool out, int dim)
{
    return rc::gen::exec([out, dim] {
        int mode = *g::irange(0, out ? 1 : 3);
        std::vector<uint64_t> v(8);
        int wm = *g::irange(0, 5);
        if (wm == 0) { // cyclic window over N slots: consecutive positions that wrap round in some lane (often the last one)
            uint64_t N = *g::range(8, 16), r0 = *g::range(0, 15) % N; if (*g::irange(0, 1)) r0 = N - (*g::irange(0, 1) ? 7 : 3);
            for (int i = 0; i < 8; i++) v[i] = ((r0 + i) % N) * dim; return v; }
        if (wm == 1) { // consecutive positions from a base, one lane somewhere else
            uint64_t base = *g::range(0, 40); for (int i = 0; i < 8; i++) v[i] = (base + i) * dim;
            int lane = *g::irange(0, 1) ? (*g::irange(0, 1) ? 7 : 3) : *g::irange(0, 7); v[lane] = (base + 8 + *g::range(0, 30)) * dim; return v; }
        if (mode == 0) { for (int i = 0; i < 8; i++) v[i] = (uint64_t)i * dim; auto perm = *rc::gen::container<std::vector<uint64_t>>(8, g::range(0, 7)); for (int i = 0; i < 8; i++) std::swap(v[i], v[perm[i]]); }
        else if (mode == 1) { uint64_t base = 0; for (int i = 0; i < 8; i++) { v[i] = base; base += *g::range(dim, 130); } auto perm = *rc::gen::container<std::vector<uint64_t>>(8, g::range(0, 7)); for (int i = 0; i < 8; i++) std::swap(v[i], v[perm[i]]); }
        else if (mode == 2) { for (int i = 0; i < 8; i++) v[i] = (uint64_t)i * dim; }
        else { for (int i = 0; i < 8; i++) v[i] = *g::range(0, 20); } // arbitrary, overlapping and repeated (inputs only)
        return v;
    });
}
static rc::Gen<std::vector<uint64_t>> gen_row_case(std::vector<int> rows)
{
    return rc::gen::exec([rows] {
        std::vector<uint64_t> v(P_LEN);
        int ri = *rc::gen::elementOf(rows);
        const Row &r = ROWS[ri];
        v[P_ROW] = ri;
        static const std::vector<uint64_t> SI{0, 1, 2, 3, 4, 5, 7, 61, 1000}, SO{3, 4, 5, 7, 61, 1000};
        v[P_SA] = *rc::gen::elementOf(SI); v[P_SB] = *rc::gen::elementOf(SI); v[P_SC] = *rc::gen::elementOf(SO);
        // strides that do not fit 32 bits (sparse arenas), except where the routine itself declares a 32-bit stride parameter
        // (PBT_NO_HUGE: set for the valgrind jobs -- memcheck cannot map the sparse 32+ GiB arenas)
        if (*g::irange(0, 15) == 0 && !getenv("PBT_NO_HUGE")) { int w = *g::irange(0, 2); uint64_t big = (1ull << 32) + (uint64_t)*g::irange(3, 9);
            if (w == 0 && !(r.w32 & 1)) v[P_SA] = big; else if (w == 1 && !(r.w32 & 2)) v[P_SB] = big; else if (w == 2 && !(r.w32 & 4)) v[P_SC] = big; }
        auto ia = *gen_idx(false, r.dA), ib = *gen_idx(false, r.dB), ic = *gen_idx(true, 3);
        for (int k = 0; k < 8; k++) { v[P_IA + k] = ia[k]; v[P_IB + k] = ib[k]; v[P_IC + k] = ic[k]; }
        v[P_JUNK] = *g::uni64();
        auto pool = *rc::gen::weightedOneOf<std::vector<uint64_t>>({{5, g::fe_vec(NPOOL)}, {1, rc::gen::map(g::fe_vec(NPOOL), [](std::vector<uint64_t> p) { for (size_t i = 0; i < p.size(); i += 2) p[i] = (i % 3) ? 0 : PR; return p; })}});
        // related coefficients inside an element and between the two operands (sums / differences that vanish although no coefficient does)
        if (*g::irange(0, 5) == 0) {
            const int np = NPOOL / 2; int m = *g::irange(0, 9), side = *g::irange(0, 2);
            for (int h = 0; h < 2; h++) { if (side != 2 && side != h) continue;
                uint64_t *q = &pool[h * np];
                for (int k = 0; k + 2 < np; k += 3) {
                    auto neg = [](uint64_t x) { return ref::sub(0, x); };
                    switch (m) {
                    case 0: q[k + 2] = neg(q[k + 1]); break;                 // c1 + c2 = 0
                    case 1: q[k + 1] = neg(q[k]); break;                     // c0 + c1 = 0
                    case 2: q[k + 2] = neg(q[k]); break;                     // c0 + c2 = 0
                    case 3: q[k + 2] = q[k + 1]; break;                      // c1 = c2
                    case 4: q[k + 1] = q[k]; q[k + 2] = q[k]; break;         // all equal
                    case 5: q[k + 2] = neg(ref::add(q[k], q[k + 1])); break; // c0 + c1 + c2 = 0
                    case 6: q[k + 1] = 0; q[k + 2] = (k & 1) ? PR : 0; break; // an embedded base element
                    case 7: q[k] = 0; break;
                    case 8: q[k + 1] = other_rep3(q[k + 1]); q[k + 2] = neg(q[k + 1]); if (q[k + 2] < 0xFFFFFFFFull) q[k + 2] += PR; break; // c1 + c2 = 0, non-canonical representatives
                    default: if (h == 1) { uint64_t *a = &pool[0]; q[k] = neg(a[k]); q[k + 1] = neg(a[k + 1]); q[k + 2] = a[k + 2]; } break; // b related to a
                    }
                }
            }
        }
        for (int i = 0; i < NPOOL; i++) v[P_POOL + i] = pool[i];
        return v;
    });
}

// ---- planar <-> interleaved copies (copy_batch, copy_avx, copy_avx512) -------------------------
// payload: [which (0 copy_batch, 1 copy_avx, 2 copy_avx512), placement, 24 values]
static bool body_copies(const Case &c, Ctx &ctx)
{
    int which = (int)(c.v[0] % 3);
#ifndef __AVX512__
    if (which == 2) which = 1;
#endif
    const int L = which == 2 ? 8 : 4, n = 3 * L; const int place = (int)(c.v[1] % 3);
    static const char *WN[] = {"copy_batch(Element *dst, const Element *src)", "copy_avx(Element *dst, __m256i a0_, __m256i a1_, __m256i a2_)", "copy_avx512(Element *dst, __m512i a0_, __m512i a1_, __m512i a2_)"};
    ctx.cls(WN[which]);
    ctx.nt(place == 0 ? "copies:destination-ends-at-guard-page" : "copies:destination-inside-sentinel-arena");
    const uint64_t *val = &c.v[2];
    // destination: exactly n words ending at an inaccessible page, or n words inside an arena of sentinels
    guard::Buf gd; std::vector<E> arena; E *dst;
    const int PADW = 16;
    if (place == 0) { gd.alloc(n * sizeof(E)); dst = gd.as<E>(); for (int i = 0; i < n; i++) dst[i].fe = SENT + i; }
    else { arena.resize(n + 2 * PADW); for (size_t i = 0; i < arena.size(); i++) arena[i].fe = SENT + i; dst = arena.data() + PADW; }
    uint64_t want[24];
    if (which == 0) {
        guard::Buf gs(n * sizeof(E)); E *src = gs.as<E>(); // source: exactly n words, ending at a guard page
        for (int i = 0; i < n; i++) { src[i].fe = val[i]; want[i] = val[i] % PR; }
        Goldilocks3::copy_batch(dst, src);
        for (int i = 0; i < n; i++) if (src[i].fe != val[i]) return ctx.fail(std::string(WN[which]) + ": modified its source");
    } else {
        alignas(64) uint64_t pl[3][8];
        for (int i = 0; i < 3; i++) for (int k = 0; k < L; k++) { pl[i][k] = val[L * i + k]; want[3 * k + i] = val[L * i + k] % PR; }
        if (which == 1) Goldilocks3::copy_avx(dst, _mm256_load_si256((__m256i *)pl[0]), _mm256_load_si256((__m256i *)pl[1]), _mm256_load_si256((__m256i *)pl[2]));
#ifdef __AVX512__
        else Goldilocks3::copy_avx512(dst, _mm512_load_si512(pl[0]), _mm512_load_si512(pl[1]), _mm512_load_si512(pl[2]));
#endif
    }
    for (int i = 0; i < n; i++) if (dst[i].fe % PR != want[i]) return ctx.fail(std::string(WN[which]) + ": word " + std::to_string(i) + " of the destination is " + hx(dst[i].fe) + ", want " + hx(want[i]));
    if (place != 0) for (size_t i = 0; i < arena.size(); i++) if ((i < (size_t)PADW || i >= (size_t)(PADW + n)) && arena[i].fe != SENT + i) return ctx.fail(std::string(WN[which]) + ": wrote outside its " + std::to_string(n) + "-word destination");
    return true;
}
static std::string desc_copies(const Case &c) { std::string s = c.prop + " which=" + std::to_string(c.v[0] % 3) + " placement=" + std::to_string(c.v[1] % 3) + " values=["; for (int i = 0; i < 6; i++) s += (i ? "," : "") + hx(c.v[2 + i]); return s + ",...]"; }

int main(int argc, char **argv)
{
    std::vector<pbt::PropDef> props;
    std::map<std::string, std::vector<int>> fam;
    for (int i = 0; i < NROWS; i++) {
        std::string d = ROWS[i].decl; std::string n = d.substr(0, d.find('('));
        std::string f = std::string(ROWS[i].op == OP_ADD ? "add" : ROWS[i].op == OP_SUB ? "sub" : "mul") + (n.find("avx512") != std::string::npos ? "_avx512" : n.find("avx") != std::string::npos ? "_avx" : "_batch");
        fam["c16." + f].push_back(i);
    }
    for (auto &kv : fam) { auto rows = kv.second; props.push_back({kv.first, [rows] { return gen_row_case(rows); }, body_row, (double)rows.size(), false, desc_row, 100}); }
    // every overload in ONE property: calls of different routines interleave at random inside a process (see h_wrappers.cpp)
    { std::vector<int> all; for (int i = 0; i < NROWS; i++) all.push_back(i); props.push_back({"c16.mixed", [all] { return gen_row_case(all); }, body_row, NROWS / 4.0, false, desc_row, 100}); }
    props.push_back({"c16.copies", [] { return rc::gen::apply([](int w, int pl, std::vector<uint64_t> v) { std::vector<uint64_t> o{(uint64_t)w, (uint64_t)pl}; o.insert(o.end(), v.begin(), v.end()); return o; },
                                        g::irange(0, 2), g::irange(0, 2), g::fe_vec(24)); }, body_copies, 3, false, desc_copies, 100});
    for (auto &p : props) p.mt_ok = true;
    return pbt::harness_main(argc, argv, "h_cubic_batch", props);
}
