// C17 — strided / offset / broadcast base-field wrappers (copy/add/sub/mul x batch/avx/avx512) and parcpy/parSetZero.
// One table row per overload (harness/c17_table.inc, derived from the declarations by tools/gen_c17.py); a single
// generic driver interprets the operand-shape spec of the row.
#include "../engine/pbt.hpp"
#include "../engine/gen.hpp"
#include "../engine/guard.hpp"
#include "../engine/statics.hpp"
#include "goldilocks_base_field.hpp"
#include <climits>
#include <omp.h>

using pbt::Case; using pbt::Ctx;
typedef Goldilocks::Element E;
static const uint64_t PR = ref::PR;
static std::string hx(uint64_t x) { char b[32]; snprintf(b, sizeof b, "0x%llx", (unsigned long long)x); return b; }
#if defined(__SANITIZE_ADDRESS__)
static const bool SAN = true;
#else
static const bool SAN = false;
#endif

enum OpK { OP_COPY, OP_ADD, OP_SUB, OP_MUL };
enum Kind { K_NONE, K_SCALAR, K_REG, K_ARR_UNIT, K_ARR_STRIDE, K_ARR_IDX };
struct TB {
    E *c; const E *a, *b; E as, bs; const E *pas, *pbs; uint64_t sa, sb, sc; uint64_t ia[8], ib[8], ic[8]; // (pas/pbs: where the scalar argument lives)
};
struct T4 : TB { __m256i creg, areg, breg; };
#ifdef __AVX512__
struct T8 : TB { __m512i creg, areg, breg; };
#endif
struct Row { const char *decl; int line; OpK op; int L; Kind A, B, C; void (*call)(TB &); void (*call_ca)(TB &); void (*call_cb)(TB &); /* result register = first / second register operand */ };
static const Row ROWS[] = {
#include "c17_table.inc"
};
static const int NROWS = sizeof(ROWS) / sizeof(ROWS[0]);

static const uint64_t SENT = 0x5E47AAAA5E47AAAAull;
// payload: [row, av[8], bv[8], sa, sb, sc, ia[8], ib[8], ic[8], junk]
enum { P_ROW = 0, P_AV = 1, P_BV = 9, P_SA = 17, P_SB = 18, P_SC = 19, P_IA = 20, P_IB = 28, P_IC = 36, P_JUNK = 44, P_LEN = 45 };

struct Operand {
    Kind k; int L; std::vector<uint64_t> pos; // designated positions (arrays)
    E *arena = nullptr; uint64_t size = 0; std::vector<uint64_t> eff; // effective lane values
    guard::Buf gb; bool guarded = false;
    ~Operand() { if (!guarded) free(arena); }
};
static void positions(Operand &o, uint64_t stride, const uint64_t *idx)
{
    o.pos.resize(o.L);
    for (int k = 0; k < o.L; k++) o.pos[k] = o.k == K_ARR_UNIT ? (uint64_t)k : o.k == K_ARR_STRIDE ? (uint64_t)k * stride : o.k == K_ARR_IDX ? idx[k] : 0;
    o.size = 0;
    if (o.k >= K_ARR_UNIT) for (int k = 0; k < o.L; k++) o.size = std::max(o.size, o.pos[k] + 1);
}
static void fill_input(Operand &o, const uint64_t *vals, uint64_t junk)
{
    o.eff.assign(vals, vals + o.L);
    if (o.k == K_SCALAR) { for (int k = 0; k < o.L; k++) o.eff[k] = vals[0]; return; }
    if (o.k < K_ARR_UNIT) return;
    // exact extent: the arena ends at a guard page (ASan build: exact-size malloc): one element past the last designated cell faults
    o.gb.alloc(o.size * sizeof(E)); o.arena = o.gb.as<E>(); o.guarded = true;
    if (o.gb.failed) return; // (huge sparse arena refused by the system: the caller skips the case)
    if (!o.gb.sparse) for (uint64_t i = 0; i < o.size; i++) o.arena[i].fe = pbt::mix(junk, i);
    else for (int k = 0; k < o.L; k++) for (int d = -1; d <= 1; d++) { uint64_t i = o.pos[k] + (uint64_t)d; if (i < o.size) o.arena[i].fe = pbt::mix(junk, i); } // huge extent: junk next to the designated cells only
    for (int k = 0; k < o.L; k++) o.arena[o.pos[k]].fe = vals[k];
    for (int k = 0; k < o.L; k++) o.eff[k] = o.arena[o.pos[k]].fe; // repeated positions: the last write wins
}
// is the scalar operand (which: 0 = first input, 1 = second input) of this overload declared by value?
static bool scalar_by_value(const Row &r, int which)
{
    std::string d = r.decl; size_t lp = d.find('('), rp = d.rfind(')'); if (lp == std::string::npos || rp == std::string::npos) return false;
    std::vector<std::string> ps; { std::string cur; for (size_t i = lp + 1; i < rp; i++) { if (d[i] == ',') { ps.push_back(cur); cur.clear(); } else cur += d[i]; } ps.push_back(cur); }
    // parameters that are not strides/offsets: result first, then the inputs in order
    std::vector<std::string> ops; for (auto &q : ps) if (q.find("uint64_t") == std::string::npos) ops.push_back(q);
    if ((int)ops.size() < which + 2) return false;
    const std::string &q = ops[which + 1];
    return q.find('&') == std::string::npos && q.find('*') == std::string::npos && q.find('[') == std::string::npos && q.find("Element") != std::string::npos;
}
static uint64_t ref_op(OpK op, uint64_t a, uint64_t b) { return op == OP_COPY ? a % PR : op == OP_ADD ? ref::add(a, b) : op == OP_SUB ? ref::sub(a, b) : ref::mul(a, b); }

// form: 0 separate buffers; 1 both array inputs are given by the SAME base pointer (one array, two strides / index lists);
//       2 the output array is the first input array (same designated positions: lane-wise in place);
//       3 a by-value scalar argument is passed as an lvalue that lives in one of the designated output cells;
//       4 the output array has its exact extent and ends at an inaccessible page (instead of sentinel cells after it)
static int form_of(const Row &r, const Case &c)
{
    int f = (int)((c.v[P_JUNK] >> 40) % 8); if (f > 4) f = 0;
    const bool big = (r.A == K_ARR_STRIDE && c.v[P_SA] >= (1ull << 24)) || (r.B == K_ARR_STRIDE && c.v[P_SB] >= (1ull << 24)) || (r.C == K_ARR_STRIDE && c.v[P_SC] >= (1ull << 24));
    if (big) return 0;
    if (f == 1 && !(r.A >= K_ARR_UNIT && r.B >= K_ARR_UNIT)) f = 0;
    if (f == 2) {
        if (!(r.A >= K_ARR_UNIT && r.C == r.A)) f = 0;
        else if (r.A == K_ARR_STRIDE && (c.v[P_SA] == 0 || c.v[P_SA] != c.v[P_SC])) f = 0;
        else if (r.A == K_ARR_IDX) { for (int i = 0; i < r.L; i++) { if (c.v[P_IA + i] != c.v[P_IC + i]) f = 0; for (int j = 0; j < i; j++) if (c.v[P_IA + i] == c.v[P_IA + j]) f = 0; } }
    }
    if (f == 3 && !(r.C >= K_ARR_UNIT && ((r.A == K_SCALAR && scalar_by_value(r, 0)) || (r.B == K_SCALAR && scalar_by_value(r, 1))))) f = 0;
    if (f == 4 && r.C < K_ARR_UNIT) f = 0;
    if (f == 0 && ((c.v[P_JUNK] >> 43) & 3) == 1 && r.call_ca) f = 5; // the result register is the first register operand
    if (f == 0 && ((c.v[P_JUNK] >> 43) & 3) == 2 && r.call_cb) f = 6; // ... the second register operand
    return f;
}
static bool run_row(const Row &r, const Case &c, uint64_t junk, std::vector<uint64_t> &outlanes, std::string &why, bool probe_statics = false)
{
    const int L = r.L;
    const int form = form_of(r, c);
    Operand A, B, C; A.k = r.A; B.k = r.B; C.k = r.C; A.L = B.L = C.L = L;
    positions(A, c.v[P_SA], &c.v[P_IA]); positions(B, c.v[P_SB], &c.v[P_IB]); positions(C, c.v[P_SC], &c.v[P_IC]);
    if (form == 1) {
        // one array serves both inputs: filled with junk, then the a-values, then the b-values (a cell designated by both holds the b-value)
        uint64_t sz = std::max(A.size, B.size); A.size = sz;
        A.gb.alloc(sz * sizeof(E)); A.arena = A.gb.as<E>(); A.guarded = true;
        for (uint64_t i = 0; i < sz; i++) A.arena[i].fe = pbt::mix(junk, i);
        for (int k = 0; k < L; k++) A.arena[A.pos[k]].fe = c.v[P_AV + k];
        for (int k = 0; k < L; k++) A.arena[B.pos[k]].fe = c.v[P_BV + k];
        A.eff.resize(L); B.eff.resize(L);
        for (int k = 0; k < L; k++) { A.eff[k] = A.arena[A.pos[k]].fe; B.eff[k] = A.arena[B.pos[k]].fe; }
        B.arena = A.arena; B.guarded = true; B.size = 0; // (B does not own the storage; the modification check below runs over A)
    } else {
    fill_input(A, &c.v[P_AV], junk); fill_input(B, &c.v[P_BV], junk ^ 0xB);
    }
    if (A.gb.failed || B.gb.failed) { why = "SKIP"; return true; }
    std::vector<uint64_t> a0, b0;
    if (A.arena && !A.gb.sparse) { a0.resize(A.size); for (uint64_t i = 0; i < A.size; i++) a0[i] = A.arena[i].fe; }
    if (B.arena && !B.gb.sparse) { b0.resize(B.size); for (uint64_t i = 0; i < B.size; i++) b0[i] = B.arena[i].fe; }
    uint64_t guard = SAN ? 0 : 8;
    const bool csparse = C.k >= K_ARR_UNIT && C.size * sizeof(E) >= ((size_t)1 << 26);
    if (csparse) { // huge output stride: sparse mapping ending at a guard page; sentinels next to the designated cells
        guard = 0; C.gb.alloc(C.size * sizeof(E)); C.arena = C.gb.as<E>(); C.guarded = true;
        if (C.gb.failed || A.gb.failed || B.gb.failed) { why = "SKIP"; return true; }
        for (int k = 0; k < L; k++) for (int d = -2; d <= 2; d++) { uint64_t i = C.pos[k] + (uint64_t)d; if (i < C.size) C.arena[i].fe = SENT + i; }
    } else if (form == 2) {
        C.arena = A.arena; C.guarded = true; guard = 0; // in place: the designated cells are replaced, every other cell keeps its junk
    } else if (form == 4) {
        guard = 0; C.gb.alloc(C.size * sizeof(E)); C.arena = C.gb.as<E>(); C.guarded = true; for (uint64_t i = 0; i < C.size; i++) C.arena[i].fe = SENT + i;
    } else
    if (C.k >= K_ARR_UNIT) { C.arena = (E *)malloc((C.size + guard) * sizeof(E)); for (uint64_t i = 0; i < C.size + guard; i++) C.arena[i].fe = SENT + i; }
    if (A.gb.failed || B.gb.failed || C.gb.failed) { why = "SKIP"; return true; } // huge sparse arena refused by the system: no verdict for this case
#ifdef __AVX512__
    T8 t8;
#endif
    T4 t4;
    TB *t = &t4;
#ifdef __AVX512__
    if (L == 8) t = &t8;
#endif
    t->c = C.arena; t->a = A.arena; t->b = B.arena; t->as.fe = c.v[P_AV]; t->bs.fe = c.v[P_BV]; t->pas = &t->as; t->pbs = &t->bs;
    if (form == 3) { // the scalar argument expression is an element of the result array (legal for a by-value parameter: its value is taken at the call)
        E *cell = &C.arena[C.pos[(junk >> 8) % L]];
        if (r.A == K_SCALAR && scalar_by_value(r, 0)) { cell->fe = c.v[P_AV]; t->pas = cell; } else { cell->fe = c.v[P_BV]; t->pbs = cell; }
    }
    t->sa = c.v[P_SA]; t->sb = c.v[P_SB]; t->sc = c.v[P_SC];
    for (int k = 0; k < 8; k++) { t->ia[k] = c.v[P_IA + k]; t->ib[k] = c.v[P_IB + k]; t->ic[k] = c.v[P_IC + k]; }
    alignas(64) uint64_t la[8], lb[8], lc[8];
    for (int k = 0; k < 8; k++) { la[k] = c.v[P_AV + k]; lb[k] = c.v[P_BV + k]; lc[k] = SENT; }
    if (L == 4) { t4.areg = _mm256_load_si256((__m256i *)la); t4.breg = _mm256_load_si256((__m256i *)lb); t4.creg = _mm256_load_si256((__m256i *)lc); }
#ifdef __AVX512__
    else { t8.areg = _mm512_load_si512(la); t8.breg = _mm512_load_si512(lb); t8.creg = _mm512_load_si512(lc); }
#endif
    // every 8th case (second run of the row only: never the first call of a routine) the static storage of the process is checksummed
    // right before and right after the call: a routine must not write anywhere but its designated outputs
    static thread_local uint64_t g_static_probe = 0;
    static thread_local std::vector<uint32_t> row_calls(NROWS, 0);
    const uint32_t ncalls = row_calls[&r - ROWS]++;   // the first call of a routine is never measured (one-time initialisation is legitimate)
    const bool probe = !SAN && !pbt::in_concurrent() && probe_statics && ncalls >= 1 && ((++g_static_probe & 7) == 0); // (not in sanitizer builds: their runtime keeps bookkeeping in the executable's own data segment)
    uint64_t cs0 = probe ? statics::checksum() : 0;
    if (form == 5) r.call_ca(*t); else if (form == 6) r.call_cb(*t); else r.call(*t);
    if (probe && statics::checksum() != cs0) { why = "wrote to static storage of the process (a hidden buffer or memo): memory other than the designated output positions changed during the call"; return false; }
    outlanes.resize(L);
    if (C.k == K_REG) {
        if (L == 4) _mm256_store_si256((__m256i *)lc, form == 5 ? t4.areg : form == 6 ? t4.breg : t4.creg);
#ifdef __AVX512__
        else _mm512_store_si512(lc, form == 5 ? t8.areg : form == 6 ? t8.breg : t8.creg);
#endif
        for (int k = 0; k < L; k++) outlanes[k] = lc[k];
    } else for (int k = 0; k < L; k++) outlanes[k] = C.arena[C.pos[k]].fe;
    for (int k = 0; k < L; k++) {
        uint64_t want = ref_op(r.op, A.eff[k], r.B == K_NONE ? 0 : B.eff[k]);
        if (outlanes[k] % PR != want) { why = "lane " + std::to_string(k) + ": got " + hx(outlanes[k]) + " want " + hx(want) + " (a=" + hx(A.eff[k]) + (r.B == K_NONE ? "" : " b=" + hx(B.eff[k])) + ")"; return false; }
    }
    if (C.arena && csparse) {
        for (int k = 0; k < L; k++) for (int d = -2; d <= 2; d++) { uint64_t i = C.pos[k] + (uint64_t)d; bool des = false; for (int q = 0; q < L; q++) if (C.pos[q] == i) des = true;
            if (i < C.size && !des && C.arena[i].fe != SENT + i) { why = "wrote output position " + std::to_string(i) + " which its strides do not designate"; return false; } }
    } else if (C.arena && form == 2) {
        std::vector<bool> des(C.size, false);
        for (int k = 0; k < L; k++) des[C.pos[k]] = true;
        for (uint64_t i = 0; i < C.size; i++) if (!des[i] && C.arena[i].fe != a0[i]) { why = "in-place call changed array position " + std::to_string(i) + " which its strides do not designate"; return false; }
    } else if (C.arena) {
        std::vector<bool> des(C.size + guard, false);
        for (int k = 0; k < L; k++) des[C.pos[k]] = true;
        for (uint64_t i = 0; i < C.size + guard; i++) if (!des[i] && C.arena[i].fe != SENT + i) { why = "wrote output position " + std::to_string(i) + " which its strides do not designate"; return false; }
    }
    if (A.arena && !A.gb.sparse && form != 2) for (uint64_t i = 0; i < A.size; i++) if (A.arena[i].fe != a0[i]) { why = form == 1 ? "modified its input array" : "modified its first input operand"; return false; }
    if (B.arena && !B.gb.sparse) for (uint64_t i = 0; i < B.size; i++) if (B.arena[i].fe != b0[i]) { why = "modified its second input operand"; return false; }
    return true;
}
static const char *KN[] = {"-", "scalar", "register", "array", "array+stride", "array+index"};
static bool body_row(const Case &c, Ctx &ctx)
{
    const Row &r = ROWS[c.v[P_ROW] % NROWS];
    ctx.cls(r.decl);
    bool nt = false;
    auto st = [&](Kind k, uint64_t s, const uint64_t *idx, bool out) {
        if (k == K_ARR_STRIDE && s != 1 && s != 3) { nt = true; ctx.cls(s == 0 ? "shape:stride-0" : s >= (1ull << 32) ? "shape:stride>=2^32" : s >= (1ull << 24) ? "shape:stride-whose-multiples-cross-2^31-or-2^32" : s >= 61 ? "shape:large-stride" : "shape:stride-not-1-or-3"); }
        if (k == K_ARR_IDX) { bool id = true, rep = false; for (int i = 0; i < r.L; i++) { if (idx[i] != (uint64_t)i) id = false; for (int j = 0; j < i; j++) if (idx[i] == idx[j]) rep = true; }
            if (!id) { nt = true; ctx.cls(rep ? "shape:index-array-with-repeats" : out ? "shape:permuted/sparse-output-index" : "shape:permuted/sparse-input-index"); } }
    };
    st(r.A, c.v[P_SA], &c.v[P_IA], false); st(r.B, c.v[P_SB], &c.v[P_IB], false); st(r.C, c.v[P_SC], &c.v[P_IC], true);
    for (int k = 0; k < r.L; k++) if (c.v[P_AV + k] >= PR || c.v[P_BV + k] >= PR) { nt = true; ctx.cls("shape:non-canonical-operand"); break; }
    { static const char *FN[] = {nullptr, "form:both-inputs-one-array(same-pointer)", "form:output-array-is-first-input(in-place)", "form:by-value-scalar-lives-in-an-output-cell", "form:exact-output-extent-at-guard-page", "form:result-register-is-the-first-register-operand", "form:result-register-is-the-second-register-operand"};
      int f = form_of(r, c); if (f) { nt = true; ctx.cls(FN[f]); } }
    ctx.nontrivial = nt;
    std::vector<uint64_t> o1, o2; std::string why;
    why.clear();
    if (!run_row(r, c, c.v[P_JUNK], o1, why, true)) return ctx.fail(std::string(r.decl) + " [A=" + KN[r.A] + " B=" + KN[r.B] + " -> " + KN[r.C] + "] sa=" + std::to_string(c.v[P_SA]) + " sb=" + std::to_string(c.v[P_SB]) + " sc=" + std::to_string(c.v[P_SC]) + " form=" + std::to_string(form_of(r, c)) + ": " + why);
    if (why == "SKIP") { ctx.cls("shape:huge-arena-refused-by-the-system(case-skipped)"); return true; }
    // metamorphic: different junk in the non-designated input cells must not change the result
    if (!run_row(r, c, ~c.v[P_JUNK], o2, why)) return ctx.fail(std::string(r.decl) + ": " + why);
    if (o1 != o2) return ctx.fail(std::string(r.decl) + ": result depends on input cells that its strides do not designate");
    return true;
}
static std::string desc_row(const Case &c)
{
    const Row &r = ROWS[c.v[P_ROW] % NROWS];
    std::string s = c.prop + " " + r.decl + " a=[";
    for (int k = 0; k < r.L; k++) s += (k ? "," : "") + hx(c.v[P_AV + k]);
    s += "] b=[";
    for (int k = 0; k < r.L; k++) s += (k ? "," : "") + hx(c.v[P_BV + k]);
    s += "] strides a,b,c=" + std::to_string(c.v[P_SA]) + "," + std::to_string(c.v[P_SB]) + "," + std::to_string(c.v[P_SC]) + " ia=[";
    for (int k = 0; k < r.L; k++) s += (k ? "," : "") + std::to_string(c.v[P_IA + k]);
    s += "] ib=[";
    for (int k = 0; k < r.L; k++) s += (k ? "," : "") + std::to_string(c.v[P_IB + k]);
    s += "] ic=[";
    for (int k = 0; k < r.L; k++) s += (k ? "," : "") + std::to_string(c.v[P_IC + k]);
    return s + "]";
}
static rc::Gen<std::vector<uint64_t>> gen_idx(bool out)
{
    return rc::gen::exec([out] {
        int mode = *g::irange(0, out ? 2 : 3);
        std::vector<uint64_t> v(8);
        if (mode == 0) { for (int i = 0; i < 8; i++) v[i] = i; auto perm = *rc::gen::container<std::vector<uint64_t>>(8, g::range(0, 7)); for (int i = 0; i < 8; i++) std::swap(v[i], v[perm[i]]); } // permutation
        else if (mode == 1) { uint64_t base = 0; for (int i = 0; i < 8; i++) { base += *g::range(1, 130); v[i] = base; } auto perm = *rc::gen::container<std::vector<uint64_t>>(8, g::range(0, 7)); for (int i = 0; i < 8; i++) std::swap(v[i], v[perm[i]]); } // sparse distinct
        else if (mode == 2) { for (int i = 0; i < 8; i++) v[i] = i; if (!out) v[*g::range(0, 7)] = *g::range(0, 7); } // identity (inputs: one repeat)
        else { for (int i = 0; i < 8; i++) v[i] = *g::range(0, 9); } // repeats (inputs only)
        return v;
    });
}
static rc::Gen<std::vector<uint64_t>> gen_row_case(std::vector<int> rows)
{
    return rc::gen::exec([rows] {
        std::vector<uint64_t> v(P_LEN);
        int ri = *rc::gen::elementOf(rows);
        v[P_ROW] = ri;
        OpK op = ROWS[ri].op;
        for (int k = 0; k < 8; k++) { g::P2 p = *(op == OP_ADD ? g::pair_add() : op == OP_SUB ? g::pair_sub() : op == OP_MUL ? g::pair_mul() : g::pair_indep()); v[P_AV + k] = p.first; v[P_BV + k] = p.second; }
        static const std::vector<uint64_t> SI{0, 1, 2, 3, 4, 5, 7, 61, 1000}, SO{1, 2, 3, 4, 5, 7, 61, 1000};
        v[P_SA] = *rc::gen::elementOf(SI); v[P_SB] = *rc::gen::elementOf(SI); v[P_SC] = *rc::gen::elementOf(SO);
        // strides that do not fit 32 bits (sparse arenas): an index computed in 32-bit arithmetic lands on another cell
        // (PBT_NO_HUGE: set for the valgrind jobs -- memcheck cannot map the sparse 32+ GiB arenas)
        if (*g::irange(0, 15) == 0 && !getenv("PBT_NO_HUGE")) { int w = *g::irange(0, 2); uint64_t big = (1ull << 32) + (uint64_t)*g::irange(1, 5);
            // also strides whose multiples k*stride (k < L) cross 2^31 or 2^32 although the stride itself fits 32 bits
            static const uint64_t MID[] = {306783379, (1ull << 29) + 1, (1ull << 30) + 3, (1ull << 31) - 1, (1ull << 31) + 5, 0xFFFFFFFFull, 613566757};
            if (*g::irange(0, 1)) big = MID[*g::irange(0, 6)];
            if (w == 0) v[P_SA] = big; else if (w == 1) v[P_SB] = big; else v[P_SC] = big; }
        auto ia = *gen_idx(false), ib = *gen_idx(false), ic = *gen_idx(true);
        for (int k = 0; k < 8; k++) { v[P_IA + k] = ia[k]; v[P_IB + k] = ib[k]; v[P_IC + k] = ic[k]; }
        v[P_JUNK] = *g::uni64();
        // call form (see form_of): chosen here so that the in-place form gets matching positions
        int f = *rc::gen::weightedElement<int>({{8, 0}, {2, 1}, {2, 2}, {1, 3}, {2, 4}});
        v[P_JUNK] = (v[P_JUNK] & ~(7ull << 40)) | ((uint64_t)f << 40);
        if (f == 2) { if (v[P_SC] >= (1ull << 24)) v[P_SC] = 3; v[P_SA] = v[P_SC]; for (int k = 0; k < 8; k++) v[P_IA + k] = v[P_IC + k]; }
        return v;
    });
}

// ---- parcpy / parSetZero --------------------------------------------------------------------
// payload: [which(0 parcpy,1 parSetZero), size, nthreads (int, as two's complement), seed, use_default]
static bool body_par(const Case &c, Ctx &ctx)
{
    int which = (int)(c.v[0] & 1); uint64_t size = c.v[1]; int nth = (int)(int64_t)c.v[2]; uint64_t seed = c.v[3]; bool dflt = c.v[4] & 1;
    if (size == 0) ctx.nt("par:size-0"); else if (dflt) ctx.nt("par:default-thread-argument"); else if (nth < 1) ctx.nt("par:non-positive-threads"); else if ((uint64_t)nth > size) ctx.nt("par:more-threads-than-elements"); else if (size % (uint64_t)nth) ctx.nt("par:size-not-multiple-of-threads"); else ctx.nt("par:size-multiple-of-threads");
    const uint64_t G = SAN ? 0 : 64;
    E *src = (E *)malloc(size * sizeof(E));
    E *dstblk = (E *)malloc((size + 2 * G) * sizeof(E)), *dst = dstblk + G;
    for (uint64_t i = 0; i < size; i++) src[i].fe = pbt::mix(seed, i);
    for (uint64_t i = 0; i < size + 2 * G; i++) dstblk[i].fe = SENT + i;
    auto call = [&]() {
    if (which == 0) { if (dflt) Goldilocks::parcpy(dst, src, size); else Goldilocks::parcpy(dst, src, size, nth); }
    else { if (dflt) Goldilocks::parSetZero(dst, size); else Goldilocks::parSetZero(dst, size, nth); }
    };
    // payload[4] & 2: the helper is called from inside an active parallel region (the runtime then delivers a team of one although
    // more threads were requested -- legal for any OpenMP program; the helpers must still transfer exactly `size` elements)
    if (c.v[4] & 2) {
        ctx.cls("par:called-inside-parallel-region(fewer-threads-delivered)");
#pragma omp parallel num_threads(2)
        { if (omp_get_thread_num() == 0) call(); }
    } else call();
    bool ok = true; std::string why;
    for (uint64_t i = 0; i < size && ok; i++) { uint64_t want = which == 0 ? pbt::mix(seed, i) : 0; if (dst[i].fe != want) { ok = false; why = std::string(which ? "parSetZero" : "parcpy") + " size=" + std::to_string(size) + " threads=" + std::to_string(nth) + ": element " + std::to_string(i) + " is " + hx(dst[i].fe) + " want " + hx(want); } }
    for (uint64_t i = 0; i < G && ok; i++) if (dstblk[i].fe != SENT + i || dstblk[G + size + i].fe != SENT + G + size + i) { ok = false; why = std::string(which ? "parSetZero" : "parcpy") + " size=" + std::to_string(size) + " threads=" + std::to_string(nth) + ": wrote outside dst[0..size)"; }
    if (which == 0) for (uint64_t i = 0; i < size && ok; i++) if (src[i].fe != pbt::mix(seed, i)) { ok = false; why = "parcpy modified its source"; }
    free(src); free(dstblk);
    if (!ok) return ctx.fail(why);
    return true;
}
static std::string desc_par(const Case &c) { return c.prop + (c.v[0] & 1 ? " parSetZero" : " parcpy") + " size=" + std::to_string(c.v[1]) + " threads=" + ((c.v[4] & 1) ? std::string("<default 64>") : std::to_string((int)(int64_t)c.v[2])) + " seed=" + hx(c.v[3]); }

int main(int argc, char **argv)
{
    std::vector<pbt::PropDef> props;
    // one generated property per family so that the evidence shows the budget per family
    std::map<std::string, std::vector<int>> fam;
    for (int i = 0; i < NROWS; i++) { std::string d = ROWS[i].decl; fam["c17." + d.substr(0, d.find('('))].push_back(i); }
    for (auto &kv : fam) { auto rows = kv.second; props.push_back({kv.first, [rows] { return gen_row_case(rows); }, body_row, (double)rows.size(), false, desc_row, 100}); }
    // every overload in ONE property: calls of different routines interleave at random inside a process (state one routine leaves behind
    // for another -- shared scratch storage -- only shows in such orders; a failure is replayed with its predecessor calls)
    { std::vector<int> all; for (int i = 0; i < NROWS; i++) all.push_back(i); props.push_back({"c17.mixed", [all] { return gen_row_case(all); }, body_row, NROWS / 4.0, false, desc_row, 100}); }
    props.push_back({"c17.par", [] { return rc::gen::exec([] {
                         uint64_t size = *rc::gen::weightedOneOf<uint64_t>({{4, g::range(0, 70)}, {2, rc::gen::apply([](int k, int d) { return (uint64_t)((1ll << k) + d - 1 < 0 ? 0 : (1ll << k) + d - 1); }, g::irange(0, 16), g::irange(0, 2))}, {1, g::range(0, 70000)}});
                         int nth = *rc::gen::weightedOneOf<int>({{3, rc::gen::elementOf(std::vector<int>{INT_MIN, -1, 0, 1, 2, 3, 7, 64, 256})}, {2, g::irange(1, 70)}, {2, rc::gen::apply([size](int d) { long v = (long)size + d - 1; return (int)std::max<long>(-2, std::min<long>(v, 256)); }, g::irange(0, 2))}});
                         return std::vector<uint64_t>{(uint64_t)*g::irange(0, 1), size, (uint64_t)(int64_t)nth, *g::uni64(), (uint64_t)(*rc::gen::weightedElement<int>({{7, 0}, {1, 1}}) | *rc::gen::weightedElement<int>({{4, 0}, {1, 2}}))}; }); },
                     body_par, 12, false, desc_par, 100});
    for (auto &p : props) p.mt_ok = true;
    return pbt::harness_main(argc, argv, "h_wrappers", props);
}
