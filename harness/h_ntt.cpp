// C03 / C04 / C05 / C19 — NTT, INTT, extendPol in every configuration; reuse of transform objects.
// Every case runs in a forked child (abort / SIGSEGV / sanitizer report = failure that shrinks like any other).
// Oracle: naive O(n^2) DFT for n <= 64, independent recursive FFT above (validated against the naive DFT at start),
// Horner evaluation of the interpolant for extendPol. All buffers are exact-size heap blocks.
#include "../engine/pbt.hpp"
#include "../engine/gen.hpp"
#include "goldilocks_base_field.hpp"
#include "ntt_goldilocks.hpp"
#include <memory>
#include <set>
#include <map>

using pbt::Case; using pbt::Ctx;
typedef Goldilocks::Element E;
static const uint64_t PR = ref::PR;
static std::string hx(uint64_t x) { char b[32]; snprintf(b, sizeof b, "0x%llx", (unsigned long long)x); return b; }

enum { K_NTT = 0, K_INTT = 1, K_EXT = 2, K_RT_FI = 3, K_RT_IF = 4 };
static const char *KN[] = {"NTT", "INTT", "extendPol", "INTT(NTT(x))", "NTT(INTT(x))"};
static const int SIZE0 = 99; // ln value meaning "size 0"

struct Cfg {
    int kind, lm, ln, le; uint64_t ncols, nphase, nblock; int dst, buf, nth; uint64_t dmode, dseed, nphase2, nblock2, warm, lay;
    uint64_t n() const { return ln == SIZE0 ? 0 : 1ull << ln; }
    uint64_t next() const { return 1ull << le; }
};
static Cfg cfg_of(const std::vector<uint64_t> &v, size_t o = 0)
{
    Cfg c;
    c.kind = (int)v[o + 0]; c.lm = (int)v[o + 1]; c.ln = (int)v[o + 2]; c.le = (int)v[o + 3]; c.ncols = v[o + 4]; c.nphase = v[o + 5]; c.nblock = v[o + 6];
    c.dst = (int)v[o + 7]; c.buf = (int)v[o + 8]; c.nth = (int)v[o + 9]; c.dmode = v[o + 10]; c.dseed = v[o + 11];
    c.nphase2 = v.size() > o + 12 ? v[o + 12] : c.nphase; c.nblock2 = v.size() > o + 13 ? v[o + 13] : c.nblock;
    c.warm = v.size() > o + 14 ? v[o + 14] : 0;
    c.lay = v.size() > o + 15 ? v[o + 15] : 0; // buffer layout (bits 0-2) and calling context (bits 3-4)
    return c;
}
static std::string cfg_str(const Cfg &c)
{
    std::string s = std::string(KN[c.kind]) + " maxDomain=2^" + std::to_string(c.lm) + " n=" + (c.ln == SIZE0 ? "0" : "2^" + std::to_string(c.ln));
    if (c.kind == K_EXT) s += " N_ext=2^" + std::to_string(c.le);
    s += " ncols=" + std::to_string(c.ncols) + " nphase=" + std::to_string(c.nphase) + " nblock=" + std::to_string(c.nblock) +
         " dst=" + (c.dst == 0 ? "src" : c.dst == 1 ? "other" : "NULL") + " buffer=" + (c.buf ? "caller" : "NULL") + " nThreads=" + std::to_string(c.nth) +
         " data=" + (c.dmode == 1 ? "basis" : c.dmode >= 2 ? "special" + std::to_string(c.dmode) : "mixed") + ":" + hx(c.dseed);
    if (c.kind >= K_RT_FI) s += " nphase2=" + std::to_string(c.nphase2) + " nblock2=" + std::to_string(c.nblock2);
    if (c.warm) s += " warm-up=" + hx(c.warm);
    if ((c.lay & 7) >= 2) s += " layout=one-arena/order" + std::to_string((c.lay & 7) - 2);
    if (((c.lay >> 3) & 3) == 1) s += " called-inside-a-parallel-region";
    if (((c.lay >> 24) & 3) == 1) s += " app-omp_set_num_threads(" + std::to_string(1 + (c.lay >> 26) % 7) + ")";
    { static const char *SM[] = {"", "", "", "", "smaller-alive", "larger-alive", "smaller-destroyed", "smaller-used"}; if (((c.lay >> 5) & 7) == 2) s += " same-domain-instance-built-first,destroyed-before-the-call"; if (((c.lay >> 5) & 7) == 3) s += " same-domain-instance-built-and-destroyed-in-between"; if (((c.lay >> 5) & 7) >= 4) s += std::string(" other-instance-first=") + SM[(c.lay >> 5) & 7]; }
    return s;
}
static std::string desc(const Case &c) { return c.prop + " " + cfg_str(cfg_of(c.v)); }

static uint64_t root_of(int lg) { return Goldilocks::toU64(Goldilocks::w(lg)); }
// input cell (row j, column col): pure function of the case
static uint64_t cell(const Cfg &c, uint64_t j, uint64_t col, uint64_t n)
{
    uint64_t idx = j * (c.ncols ? c.ncols : 1) + col;
    if (c.dmode == 1) { // basis vector: a single non-zero cell
        uint64_t total = n * c.ncols;
        uint64_t pos = total ? (c.dseed >> 8) % total : 0;
        static const uint64_t vals[] = {1, 2, PR - 1, PR + 1, 0xFFFFFFFFFFFFFFFFull, 0x123456789ABCDEFull, 0xFFFFFFFFull, 7};
        return idx == pos ? vals[c.dseed & 7] : 0;
    }
    uint64_t dm = c.dmode;
    if (dm == 6) dm = col == 0 ? 2 + (c.dseed >> 44) % 5 : 0;           // a special first column next to generic columns
    else if (dm == 7) dm = ((col + (c.dseed >> 44)) % 3 == 0) ? 0 : 2 + (col + (c.dseed >> 46)) % 5; // every column of another kind
    if (dm >= 2) { // special inputs for which a fast path is tempting: all zero, constant, powers of the root (a single spectral line), all p-1
        uint64_t v = c.dseed | 1;
        switch (dm) {
        case 2: return (c.dseed & 2) ? PR : 0;
        case 6: return ref::add(v, ref::mul(c.dseed >> 3 | 1, ref::pw(root_of(ref::lg(n ? n : 1)), j))); // values of a degree-1 polynomial on the domain
        case 3: return (c.dseed & 1) ? PR + (c.dseed >> 40) % 5 : v;                          // constant matrix (sometimes a non-canonical zero/small constant)
        case 4: return ref::pw(root_of(ref::lg(n ? n : 1)), (j * (1 + (c.dseed >> 8) % (n ? n : 1))) % (n ? n : 1)); // w^(j*t): transform is n at one index, 0 elsewhere
        default: return PR - 1;
        }
    }
    uint64_t h = pbt::mix(c.dseed, idx), h2 = pbt::mix(h, 0x51);
    switch (h >> 61) {
    case 0: case 1: case 2: case 3: return h2;
    case 4: return PR + h2 % 0xFFFFFFFFull;                   // non-canonical band
    case 5: { static const uint64_t e[] = {0, 1, PR - 1, PR, 0xFFFFFFFFFFFFFFFFull, 0xFFFFFFFF00000000ull, 0xFFFFFFFFull, 0x100000000ull}; return e[h2 & 7]; }
    case 6: return h2 & 15;
    default: return (h2 & 0xFFFFFFFFull) << 32;
    }
}

static E *xalloc(uint64_t nelem) { return (E *)malloc(nelem * sizeof(E)); } // exact size (malloc(0) is a valid zero-size block)

static std::vector<std::vector<uint64_t>> expected(const Cfg &c, const std::vector<std::vector<uint64_t>> &in /*[col][row]*/)
{
    std::vector<std::vector<uint64_t>> out(c.ncols);
    uint64_t n = c.n();
    for (uint64_t col = 0; col < c.ncols; col++) {
        if (c.kind == K_NTT) out[col] = ref::dft(in[col], root_of(c.ln), 1);
        else if (c.kind == K_INTT) out[col] = ref::dft(in[col], ref::inv(root_of(c.ln)), ref::inv(n % PR));
        else if (c.kind == K_EXT) {
            std::vector<uint64_t> coef = ref::dft(in[col], ref::inv(root_of(c.ln)), ref::inv(n % PR));
            std::vector<uint64_t> sh(c.next(), 0);
            uint64_t s = 1;
            for (uint64_t j = 0; j < n; j++) { sh[j] = ref::mul(coef[j], s); s = ref::mul(s, 7); }
            out[col] = ref::dft(sh, root_of(c.le), 1);
            // second, structurally different opinion on a few points: Horner at 7*w^k
            uint64_t w = root_of(c.le);
            for (uint64_t t = 0; t < 4 && t < c.next(); t++) {
                uint64_t k = (pbt::mix(c.dseed, t) % c.next());
                uint64_t x = ref::mul(7, ref::pw(w, k));
                if (ref::horner(coef, x) != out[col][k]) { fprintf(stderr, "internal: reference LDE and Horner disagree\n"); abort(); }
            }
        } else out[col] = std::vector<uint64_t>(); // round trips: identity, handled by caller
    }
    return out;
}

// runs one call on object g; returns output matrix (raw words) or fails. 'why' set on failure.
struct CallResult { bool ok; std::string why; std::vector<uint64_t> raw; };
static CallResult run_call(NTT_Goldilocks &g, const Cfg &c, bool check_oracle)
{
    CallResult R; R.ok = true;
    uint64_t n = c.n(), ncols = c.ncols;
    uint64_t rows_out = c.kind == K_EXT ? c.next() : n;
    bool inplace = (c.dst != 1);
    uint64_t rows_src = (c.kind == K_EXT && inplace) ? rows_out : n;
    std::vector<std::vector<uint64_t>> in(ncols, std::vector<uint64_t>(n));
    // buffer layout: separate heap blocks, or ONE arena in which source, destination and scratch touch each other in some order (sentinel words at both ends)
    const int layout = (int)(c.lay & 7);
    const uint64_t PADW = 64, sz_src = rows_src * ncols, sz_other = c.dst == 1 ? rows_out * ncols : 0, sz_buf = c.buf ? rows_out * ncols : 0;
    E *arena = NULL, *a_src = NULL, *a_other = NULL, *a_buf = NULL; uint64_t arena_words = 0;
    if (layout >= 2) {
        static const int ORD[6][3] = {{0, 1, 2}, {0, 2, 1}, {1, 0, 2}, {1, 2, 0}, {2, 0, 1}, {2, 1, 0}}; // 0 src, 1 other, 2 scratch
        arena_words = sz_src + sz_other + sz_buf + 2 * PADW; arena = xalloc(arena_words);
        for (uint64_t i = 0; i < arena_words; i++) arena[i].fe = 0xA5E7A5E700000000ull + i;
        E *cur = arena + PADW;
        for (int q = 0; q < 3; q++) { int w = ORD[layout - 2][q]; if (w == 0) { a_src = cur; cur += sz_src; } else if (w == 1) { a_other = cur; cur += sz_other; } else { a_buf = cur; cur += sz_buf; } }
    }
    E *src = arena ? a_src : xalloc(rows_src * ncols);
    for (uint64_t j = 0; j < n; j++) for (uint64_t col = 0; col < ncols; col++) { uint64_t x = cell(c, j, col, n); in[col][j] = x; src[j * ncols + col].fe = x; }
    for (uint64_t i = n * ncols; i < rows_src * ncols; i++) src[i].fe = 0xDEADBEEF00000000ull + i; // junk beyond the N live rows of an in-place extendPol buffer
    E *other = NULL;
    if (c.dst == 1) { other = arena ? a_other : xalloc(rows_out * ncols); for (uint64_t i = 0; i < rows_out * ncols; i++) other[i].fe = 0xC5C5C5C5C5C5C5C5ull; }
    E *buf = c.buf ? (arena ? a_buf : xalloc(rows_out * ncols)) : NULL;
    if (buf && arena) for (uint64_t i = 0; i < sz_buf; i++) buf[i].fe = 0xB0FFB0FF00000000ull + i;
    E *dstarg = c.dst == 0 ? src : c.dst == 1 ? other : NULL;
    E *out = c.dst == 1 ? other : src;
    const bool nested = ((c.lay >> 3) & 3) == 1; // the call is made by one member of an enclosing parallel region (the library's own regions then get one thread)
    auto docall = [&]() {
    switch (c.kind) {
    case K_NTT: g.NTT(dstarg, src, n, ncols, buf, c.nphase, c.nblock); break;
    case K_INTT:
        if ((c.dseed >> 7) & 1) g.INTT(dstarg, src, n, ncols, buf, c.nphase, c.nblock);
        else g.NTT(dstarg ? dstarg : src, src, n, ncols, buf, c.nphase, c.nblock, true); // the same inverse transform through the public inverse flag
        break;
    case K_EXT: g.extendPol(out, src, c.next(), n, ncols, buf, c.nphase, c.nblock); break;
    case K_RT_FI: g.NTT(dstarg, src, n, ncols, buf, c.nphase, c.nblock); g.INTT(out, out, n, ncols, buf, c.nphase2, c.nblock2); break;
    case K_RT_IF: g.INTT(dstarg, src, n, ncols, buf, c.nphase, c.nblock); g.NTT(out, out, n, ncols, buf, c.nphase2, c.nblock2); break;
    }
    };
    // lay bits 24-25 == 1: the application has called omp_set_num_threads(k) (k from bits 26-28) after constructing the object
    const bool appthreads = ((c.lay >> 24) & 3) == 1; const int saved_threads = omp_get_max_threads();
    if (appthreads) omp_set_num_threads(1 + (int)((c.lay >> 26) % 7));
    if (nested) {
#pragma omp parallel num_threads(2)
        { if (omp_get_thread_num() == 0) docall(); }
    } else docall();
    if (appthreads) omp_set_num_threads(saved_threads);
    R.raw.resize(rows_out * ncols);
    for (uint64_t i = 0; i < rows_out * ncols; i++) R.raw[i] = out[i].fe;
    if (check_oracle) {
        if (n == 0 || ncols == 0) {
            // documented no-op: a distinct destination must be untouched
            if (other) for (uint64_t i = 0; i < rows_out * ncols; i++) if (other[i].fe != 0xC5C5C5C5C5C5C5C5ull) { R.ok = false; R.why = "no-op call wrote to the destination"; }
        } else if (c.kind >= K_RT_FI) {
            for (uint64_t j = 0; j < n && R.ok; j++) for (uint64_t col = 0; col < ncols; col++)
                if (out[j * ncols + col].fe % PR != in[col][j] % PR) { R.ok = false; R.why = "round trip differs at row " + std::to_string(j) + " col " + std::to_string(col) + ": got " + hx(out[j * ncols + col].fe) + " want " + hx(in[col][j] % PR); break; }
        } else {
            auto want = expected(c, in);
            for (uint64_t k = 0; k < rows_out && R.ok; k++) for (uint64_t col = 0; col < ncols; col++)
                if (out[k * ncols + col].fe % PR != want[col][k]) { R.ok = false; R.why = std::string(KN[c.kind]) + " output differs at row " + std::to_string(k) + " col " + std::to_string(col) + ": got " + hx(out[k * ncols + col].fe % PR) + " want " + hx(want[col][k]); break; }
        }
        if (R.ok && c.kind == K_NTT && c.dst == 1)
            for (uint64_t j = 0; j < n && R.ok; j++) for (uint64_t col = 0; col < ncols; col++)
                if (src[j * ncols + col].fe != in[col][j]) { R.ok = false; R.why = "source modified although destination is a different buffer (row " + std::to_string(j) + ")"; break; }
    }
    if (arena) {
        if (R.ok && check_oracle) for (uint64_t i = 0; i < arena_words; i++) { bool pad = i < PADW || i >= arena_words - PADW; if (pad && arena[i].fe != 0xA5E7A5E700000000ull + i) { R.ok = false; R.why = "wrote outside the buffers it was given (word " + std::to_string((long long)i - (long long)PADW) + " relative to the start of the arena)"; break; } }
        free(arena);
    } else { free(src); if (other) free(other); if (buf) free(buf); }
    return R;
}

static uint64_t eff_phase(uint64_t nphase, int ln) { uint64_t dp = ln == SIZE0 ? 0 : ln; if (nphase < 1 || dp == 0) return 1; return nphase > dp ? dp : nphase; }
static void classify(const Cfg &c, Ctx &ctx)
{
    bool nt = false;
    if (c.ln != SIZE0 && c.ln < c.lm) { ctx.cls("cfg:n<maxDomain"); nt = true; }
    if (c.nphase != 3) { ctx.cls("cfg:nphase!=3"); nt = true; }
    uint64_t nb = c.nblock < 1 ? 1 : (c.nblock > c.ncols ? c.ncols : c.nblock);
    if (nb > 1) { ctx.cls("cfg:effective-nblock>1"); nt = true; }
    if (c.dst == 2) { ctx.cls("cfg:dst=NULL"); nt = true; }
    if (c.dst == 1) ctx.cls("cfg:dst=other");
    if (c.buf) { ctx.cls("cfg:caller-buffer"); nt = true; }
    if (c.nth != 0) { ctx.cls("cfg:explicit-threads"); nt = true; }
    if (c.ln == SIZE0 || c.ncols == 0) { ctx.cls("cfg:no-op(size0/ncols0)"); nt = true; }
    if (c.ln == 0) { ctx.cls("cfg:n=1"); nt = true; }
    if (c.nphase > 8 || c.nblock > 8) { ctx.cls("cfg:clamped-huge-nphase/nblock"); nt = true; }
    if (c.ncols >= 64) { ctx.cls("cfg:wide-matrix(ncols>=64)"); nt = true; }
    if (c.kind == K_EXT) {
        if (c.le > c.ln) { ctx.cls("ext:N_ext>N"); nt = true; } else ctx.cls("ext:N_ext==N");
        if (eff_phase(c.nphase, c.le) % 2 == 0) { ctx.cls("ext:even-effective-phase-count"); nt = true; }
        if (c.dst == 0) ctx.cls("ext:in-place"); else ctx.cls("ext:distinct-output");
    }
    if ((c.lay & 7) >= 2) { ctx.cls("cfg:buffers-adjacent-in-one-arena"); nt = true; }
    if (((c.lay >> 3) & 3) == 1) { ctx.cls("cfg:called-inside-a-parallel-region"); nt = true; }
    if (((c.lay >> 24) & 3) == 1) { ctx.cls("cfg:application-called-omp_set_num_threads-before"); nt = true; }
    if (c.dmode == 1) ctx.cls("data:basis"); else if (c.dmode >= 6) ctx.cls("data:special-columns-next-to-generic-columns"); else if (c.dmode >= 2) ctx.cls("data:special(zero/constant/spectral-line/all-p-1)"); else ctx.cls("data:mixed-representations");
    if (c.ln != SIZE0 && c.ln > 6) ctx.cls("size:n>64(fft-oracle)"); else ctx.cls("size:n<=64(naive-dft-oracle)");
    if (c.ln != SIZE0 && c.ln >= 16) ctx.cls("size:n>=2^16");
    if (c.kind == K_INTT) ctx.cls(((c.dseed >> 7) & 1) ? "intt:via-INTT()" : "intt:via-NTT(inverse=true)");
    ctx.nontrivial = nt;
}

static bool body_call(const Case &cs, Ctx &ctx)
{
    Cfg c = cfg_of(cs.v);
    classify(c, ctx);
    // other transform objects of the same process: constructed (and possibly used, or already destroyed) before the object under test --
    // whatever the class shares between its instances must not depend on which instance came first or how large it was
    std::unique_ptr<NTT_Goldilocks> sib;
    { const int sm = (int)((c.lay >> 5) & 7);
      if (sm >= 4) {
          int slm = sm == 5 ? c.lm + 1 + (int)((c.lay >> 8) % 3) : (c.lm > 0 ? (int)((c.lay >> 8) % (uint64_t)c.lm) : 0);
          sib.reset(new NTT_Goldilocks(1ull << slm, c.nth));
          if (sm == 7) { Cfg w = c; w.kind = (int)((c.lay >> 12) % 3); w.lm = slm; w.ln = slm; w.le = slm; w.ncols = 1; w.dst = 0; w.buf = 0; w.nphase = 3; w.nblock = 1; w.dmode = 0; w.lay = 0; run_call(*sib, w, false); }
          if (sm == 6) sib.reset();
          ctx.nt(sm == 5 ? "cfg:a-larger-instance-was-constructed-first" : "cfg:a-smaller-instance-was-constructed-first");
      } }
    // non-nested lifetimes of two objects of the SAME domain: A built, the object under test built, A destroyed -- or A built and destroyed in between
    { const int sm = (int)((c.lay >> 5) & 7); if (sm == 2) { sib.reset(new NTT_Goldilocks(1ull << c.lm, c.nth)); ctx.nt("cfg:a-same-domain-instance-built-first-and-destroyed-before-the-call"); } }
    NTT_Goldilocks g(1ull << c.lm, c.nth);
    { const int sm = (int)((c.lay >> 5) & 7); if (sm == 2) sib.reset();
      if (sm == 3) { std::unique_ptr<NTT_Goldilocks> t(new NTT_Goldilocks(1ull << c.lm, c.nth)); t.reset(); ctx.nt("cfg:a-same-domain-instance-built-and-destroyed-after-construction"); } }
    if (c.warm) {
        // the object has been used before: one earlier call of another kind / size on the same object (its result is not checked here;
        // the property under test is about the call that follows)
        Cfg w = c; w.kind = (int)(c.warm & 3) % 3; w.dst = 0; w.buf = 0; w.nphase = 3; w.nblock = 1; w.ncols = 1 + (c.warm >> 2) % 2; w.dmode = 0;
        w.ln = (int)((c.warm >> 4) % (uint64_t)(c.lm + 1)); w.le = w.kind == K_EXT ? w.ln + (int)((c.warm >> 8) % 2) : w.ln;
        if ((c.warm >> 9) & 1) { // same shape as the call under test, but another column blocking / phase split / scratch choice
            if (c.ln != SIZE0) { w.ln = c.ln; w.le = w.kind == K_EXT ? std::max(c.le, c.ln) : c.ln; }
            if (c.ncols) w.ncols = c.ncols;
            static const uint64_t NB[] = {0, 2, 3, 8, UINT64_MAX, 1}; w.nblock = NB[(c.warm >> 10) % 6]; w.nphase = 1 + (c.warm >> 13) % 4; w.buf = (int)((c.warm >> 15) & 1);
        }
        run_call(g, w, false);
        ctx.nt(w.kind == K_EXT ? "cfg:object-used-before(extendPol)" : "cfg:object-used-before(NTT/INTT)");
    }
    CallResult r = run_call(g, c, true);
    if (!r.ok) return ctx.fail(cfg_str(c) + " :: " + r.why);
    return true;
}

// ---- C19: histories on one shared object ---------------------------------------------------
// payload: [lm, nth, ncmd, then ncmd * 12 words (same layout as a single call; lm/nth fields ignored)]
static bool body_history(const Case &cs, Ctx &ctx)
{
    int lm = (int)cs.v[0], nth = (int)cs.v[1]; uint64_t ncmd = cs.v[2];
    NTT_Goldilocks shared(1ull << lm, nth);
    std::set<std::pair<int, int>> kinds; bool two_ext = false; int lastN = -1;
    for (uint64_t i = 0; i < ncmd; i++) {
        Cfg c = cfg_of(cs.v, 3 + 12 * i);
        c.lm = lm; c.nth = nth;
        // (a history command has 12 words: the optional words of a single-call payload are derived from its data seed) buffer layout and calling
        // context (inside a parallel region / after omp_set_num_threads by the application) vary per command
        c.nphase2 = c.nphase; c.nblock2 = c.nblock; c.warm = 0; c.lay = ((c.dseed >> 30) & 0x1F) | (((c.dseed >> 36) & 0x1F) << 24);
        if (((c.lay >> 3) & 3) == 1) ctx.cls("hist:a-call-made-inside-a-parallel-region");
        if (c.kind == 5) { // a foreign object's transform in between (changes the global OpenMP team size)
            NTT_Goldilocks other(8, (uint32_t)(1 + c.nphase % 7));
            E tmp[8]; for (int k = 0; k < 8; k++) tmp[k].fe = k + 1;
            other.NTT(tmp, tmp, 8, 1);
            ctx.cls("hist:foreign-object-call");
            continue;
        }
        kinds.insert({c.kind, c.ln});
        if (c.kind == K_EXT) { if (lastN >= 0 && lastN != c.ln) two_ext = true; lastN = c.ln; }
        CallResult a = run_call(shared, c, true);
        if (!a.ok) return ctx.fail("call #" + std::to_string(i) + " on the shared object: " + cfg_str(c) + " :: " + a.why);
        NTT_Goldilocks fresh(1ull << lm, nth);
        CallResult b = run_call(fresh, c, false);
        if (a.raw != b.raw) {
            size_t k = 0; while (k < a.raw.size() && a.raw[k] == b.raw[k]) k++;
            return ctx.fail("call #" + std::to_string(i) + " " + cfg_str(c) + " differs from a fresh object at word " + std::to_string(k) + ": shared " + hx(a.raw[k]) + " fresh " + hx(b.raw[k]));
        }
    }
    if (kinds.size() >= 2) ctx.nt("hist:>=2-different-(kind,size)"); else ctx.cls("hist:single-kind");
    if (two_ext) ctx.nt("hist:two-extendPol-with-different-N");
    return true;
}
static std::string desc_history(const Case &cs)
{
    std::string s = "c19.history maxDomain=2^" + std::to_string(cs.v[0]) + " nThreads=" + std::to_string(cs.v[1]) + " calls=[";
    for (uint64_t i = 0; i < cs.v[2]; i++) {
        Cfg c = cfg_of(cs.v, 3 + 12 * i);
        if (c.kind == 5) { s += (i ? "; " : "") + std::string("<foreign object NTT>"); continue; }
        s += (i ? "; " : "") + std::string(KN[c.kind]) + " n=2^" + std::to_string(c.ln) + (c.kind == K_EXT ? " N_ext=2^" + std::to_string(c.le) : "") + " ncols=" + std::to_string(c.ncols) + " nphase=" + std::to_string(c.nphase) + " nblock=" + std::to_string(c.nblock) + " dst=" + std::to_string(c.dst) + " buf=" + std::to_string(c.buf);
    }
    return s + "]";
}

// ---- generators ---------------------------------------------------------------------------
static const uint64_t PHASES[] = {0, 1, 2, 3, 4, 5, 6, 7, 8, 64, 1ull << 32, UINT64_MAX};
static const uint64_t BLOCKS[] = {0, 1, 2, 3, 4, 5, 6, 3000, UINT64_MAX};
static const int THREADS[] = {1, 2, 3, 5, 16};

static rc::Gen<std::vector<uint64_t>> gen_call(int kindsel /* -1 any of 0..4, else fixed */, int maxlg, int maxcols)
{
    return rc::gen::exec([=]() {
        int kind = kindsel >= 0 ? kindsel : *g::irange(0, 4);
        // mostly small, regularly medium, now and then LARGE domains (index arithmetic above 2^16)
        int ln = *rc::gen::weightedOneOf<int>({{60, g::irange(0, 6)}, {30, g::irange(7, maxlg)}, {maxlg >= 11 ? 1 : 0, g::irange(16, 18)}});
        int lm = *rc::gen::weightedOneOf<int>({{1, rc::gen::just(ln)}, {1, g::irange(ln, std::min(maxlg + 2, ln + 4))}});
        int le = ln;
        if (kind == K_EXT) le = ln + *g::irange(0, 3);
        uint64_t ncols = (uint64_t)*rc::gen::weightedOneOf<int>({{8, g::irange(1, maxcols)}, {1, rc::gen::just(0)}});
        if (kind == K_EXT && ncols == 0) ncols = 1;
        if (ln > 10 && ncols > 4) ncols = 1 + ncols % 4;
        if (ln > 14) { ncols = 1 + ncols % 2; if (kind == K_EXT) le = ln + (le - ln) % 2; }
        // now and then a WIDE matrix on a small domain (row temporaries, per-row copies and block splitting depend on the column count)
        if (ln <= 4 && *g::irange(0, 19) == 0) ncols = *rc::gen::elementOf(std::vector<uint64_t>{64, 65, 255, 1024, 1025, 1100});
        uint64_t nphase = *rc::gen::weightedOneOf<uint64_t>({{6, rc::gen::elementOf(std::vector<uint64_t>(PHASES, PHASES + 12))}, {1, g::range(0, 20)}, {1, g::uni64()}});
        uint64_t nblock = *rc::gen::weightedOneOf<uint64_t>({{6, rc::gen::elementOf(std::vector<uint64_t>(BLOCKS, BLOCKS + 9))}, {1, g::range(0, 14)}, {1, g::uni64()}});
        int dst = *g::irange(0, 2);
        if (kind == K_EXT && dst == 2) dst = 0; // extendPol has no null-output contract
        int buf = *g::irange(0, 1);
        int nth = *rc::gen::weightedOneOf<int>({{2, rc::gen::just(0)}, {4, rc::gen::elementOf(std::vector<int>(THREADS, THREADS + 5))}, {1, g::irange(1, 64)}});
        uint64_t dmode = *rc::gen::weightedElement<uint64_t>({{12, 0}, {4, 1}, {1, 2}, {1, 3}, {1, 4}, {1, 5}, {2, 6}, {1, 7}});
        uint64_t lay = (uint64_t)*g::irange(0, 7) | ((uint64_t)*g::irange(0, 3) << 3) | ((uint64_t)*g::irange(0, 7) << 5) | ((uint64_t)*g::irange(0, 0xFFFF) << 8) | ((uint64_t)*g::irange(0, 31) << 24);
        uint64_t dseed = *g::uni64();
        uint64_t nphase2 = *rc::gen::elementOf(std::vector<uint64_t>(PHASES, PHASES + 12));
        uint64_t nblock2 = *rc::gen::elementOf(std::vector<uint64_t>(BLOCKS, BLOCKS + 9));
        uint64_t warm = *rc::gen::weightedOneOf<uint64_t>({{3, rc::gen::just<uint64_t>(0)}, {1, g::range(1, 0xFFFF)}});
        return std::vector<uint64_t>{(uint64_t)kind, (uint64_t)lm, (uint64_t)ln, (uint64_t)le, ncols, nphase, nblock, (uint64_t)dst, (uint64_t)buf, (uint64_t)nth, dmode, dseed, nphase2, nblock2, warm, lay};
    });
}
static rc::Gen<std::vector<uint64_t>> gen_history()
{
    return rc::gen::exec([]() {
        int lm = *g::irange(1, 7);
        int nth = *rc::gen::elementOf(std::vector<int>{0, 1, 2, 3, 5});
        int ncmd = *g::irange(1, 8);
        std::vector<uint64_t> v{(uint64_t)lm, (uint64_t)nth, (uint64_t)ncmd};
        for (int i = 0; i < ncmd; i++) {
            int kind = *rc::gen::weightedElement<int>({{3, K_NTT}, {3, K_INTT}, {4, K_EXT}, {1, 5}});
            int ln = *g::irange(0, lm);
            int le = kind == K_EXT ? ln + *g::irange(0, 2) : ln;
            uint64_t ncols = (uint64_t)*g::irange(1, 4);
            uint64_t nphase = *rc::gen::elementOf(std::vector<uint64_t>(PHASES, PHASES + 12));
            uint64_t nblock = *rc::gen::elementOf(std::vector<uint64_t>(BLOCKS, BLOCKS + 9));
            int dst = *g::irange(0, kind == K_EXT ? 1 : 2);
            int buf = *g::irange(0, 1);
            uint64_t dseed = *g::uni64();
            std::vector<uint64_t> c{(uint64_t)kind, 0, (uint64_t)ln, (uint64_t)le, ncols, nphase, nblock, (uint64_t)dst, (uint64_t)buf, 0, 0, dseed};
            v.insert(v.end(), c.begin(), c.end());
        }
        return v;
    });
}

// ---- exhaustive small scope -----------------------------------------------------------------
static int g_level = 0;
static std::vector<std::vector<uint64_t>> &enum_space(int kind)
{
    static std::map<int, std::vector<std::vector<uint64_t>>> cache;
    auto it = cache.find(kind);
    if (it != cache.end()) return it->second;
    std::vector<std::vector<uint64_t>> &sp = cache[kind];
    const bool full = g_level >= 1;
    std::vector<uint64_t> colsv = full ? std::vector<uint64_t>{0, 1, 2, 3, 5} : std::vector<uint64_t>{0, 1, 3};
    std::vector<uint64_t> blocks = full ? std::vector<uint64_t>(BLOCKS, BLOCKS + 9) : std::vector<uint64_t>{0, 1, 2, 3, UINT64_MAX};
    int maxlm = full ? 6 : 5;
    uint64_t ctr = 0;
    for (int lm = 0; lm <= maxlm; lm++)
        for (int ln = -1; ln <= lm; ln++) { // -1 encodes size 0
            if (ln == -1 && (lm > 1 || kind == K_EXT)) continue;
            for (int de = 0; de <= (kind == K_EXT ? 3 : 0); de++)
                for (uint64_t ncols : colsv) {
                    if (kind == K_EXT && ncols == 0) continue;
                    for (uint64_t nphase : PHASES)
                        for (uint64_t nblock : blocks)
                            for (int dst = 0; dst < (kind == K_EXT ? 2 : 3); dst++)
                                for (int buf = 0; buf < 2; buf++) {
                                    std::vector<int> ths = full ? std::vector<int>(THREADS, THREADS + 5) : std::vector<int>{THREADS[(ctr++) % 5]};
                                    for (int nth : ths) {
                                        int lnn = ln < 0 ? SIZE0 : ln;
                                        uint64_t seed = pbt::mix(ctr, lm * 1000 + ln * 10 + kind);
                                        uint64_t dmode = (ctr % 4 == 3) ? 1 : 0;
                                        sp.push_back({(uint64_t)kind, (uint64_t)lm, (uint64_t)lnn, (uint64_t)(ln < 0 ? 0 : ln + de), ncols, nphase, nblock, (uint64_t)dst, (uint64_t)buf, (uint64_t)nth, dmode, seed, PHASES[(ctr * 7) % 12], blocks[(ctr * 3) % blocks.size()],
                                                      (ctr % 5 == 4) ? 1 + (seed & 0xFFFF) : 0, (seed >> 24) & 0x1FFFFFFF});
                                        ctr++;
                                    }
                                }
                }
        }
    return sp;
}
// complete basis enumeration for n <= 64 on a reduced configuration set (linearity argument)
static std::vector<std::vector<uint64_t>> &basis_space(int kind)
{
    static std::map<int, std::vector<std::vector<uint64_t>>> cache;
    auto it = cache.find(kind);
    if (it != cache.end()) return it->second;
    std::vector<std::vector<uint64_t>> &sp = cache[kind];
    uint64_t ctr = 0;
    for (int ln = 0; ln <= 6; ln++)
        for (int lm : {ln, ln + 1})
            for (int de = 0; de <= (kind == K_EXT ? 1 : 0); de++)
                for (uint64_t nphase : {1ull, 2ull, 3ull, 4ull, 64ull})
                    for (uint64_t nblock : {1ull, 2ull})
                        for (uint64_t pos = 0; pos < (1ull << ln) * 2; pos++) {
                            ctr++;
                            sp.push_back({(uint64_t)kind, (uint64_t)lm, (uint64_t)ln, (uint64_t)(ln + de), 2, nphase, nblock, ctr % 2, (ctr / 2) % 2, (uint64_t)THREADS[ctr % 5], 1, (pos << 8) | (ctr % 8), nphase, nblock});
                        }
    return sp;
}

#ifndef PBT_NO_MAIN
int main(int argc, char **argv)
{
    for (int i = 1; i + 1 < argc; i++) if (std::string(argv[i]) == "--level") g_level = atoi(argv[i + 1]);
    // validate the recursive reference FFT against the naive DFT (n <= 256) before trusting it for n > 64
    for (int lg = 0; lg <= 8; lg++) {
        std::vector<uint64_t> x(1ull << lg);
        for (size_t i = 0; i < x.size(); i++) x[i] = pbt::mix(lg, i);
        uint64_t w = root_of(lg);
        std::vector<uint64_t> a(x.size()); for (size_t i = 0; i < x.size(); i++) a[i] = x[i] % PR;
        ref::fft_rec(a, w);
        if (a != ref::dft_naive(x, w, 1)) { fprintf(stderr, "internal: reference FFT disagrees with naive DFT at 2^%d\n", lg); return 2; }
        // the library's root table must be a tower of primitive 2^k-th roots (the oracle reads w_n from it, as the property states)
        if (ref::pw(w, 1ull << lg) != 1 || (lg > 0 && ref::pw(w, 1ull << (lg - 1)) != PR - 1)) { fprintf(stderr, "internal: w(%d) is not a primitive root\n", lg); return 2; }
    }
    int big = g_level >= 1 ? 16 : 11;
    std::vector<pbt::PropDef> props;
    auto add_enum = [&](const char *name, int kind, bool basis) {
        pbt::PropDef p{name, [kind, big] { return gen_call(kind, big, 6); }, body_call, 0, true, desc, 100};
        if (basis) { p.enum_count = [kind] { return (uint64_t)basis_space(kind).size(); }; p.enum_at = [kind](uint64_t i) { return basis_space(kind)[i]; }; }
        else { p.enum_count = [kind] { return (uint64_t)enum_space(kind).size(); }; p.enum_at = [kind](uint64_t i) { return enum_space(kind)[i]; }; }
        props.push_back(p);
    };
    add_enum("c03.enum", K_NTT, false); add_enum("c03.basis", K_NTT, true);
    add_enum("c04.enum", K_INTT, false); add_enum("c04.basis", K_INTT, true);
    add_enum("c05.enum", K_EXT, false); add_enum("c05.basis", K_EXT, true);
    props.push_back({"c03.random", [big] { return gen_call(K_NTT, big, 12); }, body_call, 1, true, desc, 100});
    props.push_back({"c04.random", [big] { return gen_call(K_INTT, big, 12); }, body_call, 1, true, desc, 100});
    props.push_back({"c04.roundtrip", [big] { return rc::gen::exec([big] { auto v = *gen_call(K_RT_FI, big, 8); v[0] = (uint64_t)*g::irange(3, 4); return v; }); }, body_call, 1, true, desc, 100});
    props.push_back({"c05.random", [big] { return gen_call(K_EXT, big - 2, 8); }, body_call, 1, true, desc, 100});
    props.push_back({"c19.history", [] { return gen_history(); }, body_history, 1, true, desc_history, 100});
    for (auto &p : props) if (p.name == "c03.random" || p.name == "c04.random" || p.name == "c05.random") p.mt_ok = true;
    return pbt::harness_main(argc, argv, "h_ntt", props);
}
#endif // PBT_NO_MAIN
