// C20 — GPU field arithmetic (gl64_t) and device tables implement the same field as the CPU.
// No GPU / nvcc here: the source text of gl64_t.cuh is executed under a semantic model of a PTX subset
// (engine/ptx2cpp.py rewrites every asm statement into the PTX_* macros of engine/ptx_sem.hpp; the carry flag
// is a poisoned value that traps when read before being written); the rest of the header is compiled unchanged.
// Built four times: __CUDA_ARCH__ in {700, 600} x GL64_PARTIALLY_REDUCED on/off.
#include "../engine/pbt.hpp"
#include "../engine/gen.hpp"
#include "goldilocks_base_field.hpp"
#include "ptx_sem.hpp"
#define __USE_CUDA__
#define __device__
#define __constant__
#define __forceinline__
#define __noinline__
struct { unsigned x, y, z; } threadIdx;
#include "gl64_host.hpp"    // generated into the build directory
#include "gl64_tables.inc"  // generated: GPU_omegas, GPU_omegas_inv, GPU_domain_size_inverse

using pbt::Case; using pbt::Ctx;
static const uint64_t PR = ref::PR;
static std::string hx(uint64_t x) { char b[32]; snprintf(b, sizeof b, "0x%016llx", (unsigned long long)x); return b; }
#ifdef GL64_PARTIALLY_REDUCED
static const bool PARTIAL = true;
#else
static const bool PARTIAL = false;
#endif

enum { G_ADD, G_SUB, G_NEG, G_MUL, G_MULW, G_SQR, G_REDUCE, G_NOPS };
static const char *GN[] = {"a+b", "a-b", "-a", "a*b", "a*(uint32)b", "sqr(a)", "final-reduction"};
// payload [op, a, b]
static bool body_op(const Case &c, Ctx &ctx)
{
    int op = (int)(c.v[0] % G_NOPS); uint64_t a = c.v[1], b = c.v[2];
    // input domain: canonical values for the fully reduced configuration; the partially reduced configuration
    // documents tolerance of any value < 2^64 for multiplicands ("either multiplication variant can handle partially reduced inputs")
    // and works on partially reduced values throughout
    bool any = PARTIAL || (op == G_MUL || op == G_SQR || op == G_MULW) ;
    if (!any || (c.v.size() > 3 && (c.v[3] & 1))) { a %= PR; b %= PR; }
    if (op == G_REDUCE) { /* any 64-bit value goes through the final conditional subtraction */ a = c.v[1]; }
    if (a >= PR || b >= PR) ctx.nt("gl64:partially-reduced-operand"); else ctx.nt("gl64:canonical-operands");
    ctx.cls(GN[op]);
    gl64_t x, y; x.set_val(a); y.set_val(b);
    ptx_cc = -1; // every operation must establish the carry flag before consuming it
    uint64_t got, want;
    switch (op) {
    case G_ADD: got = (uint64_t)(x + y); want = ref::add(a, b); break;
    case G_SUB: got = (uint64_t)(x - y); want = ref::sub(a, b); break;
    case G_NEG: got = (uint64_t)(-x); want = ref::neg(a); break;
    case G_MUL: got = (uint64_t)(x * y); want = ref::mul(a, b); break;
    case G_MULW: got = (uint64_t)(x * (uint32_t)b); want = ref::mul(a, (uint32_t)b); break;
    case G_SQR: got = (uint64_t)sqr(x); want = ref::mul(a, a); break;
    default: {
        // final reduction: conversion to uint64 of a stored value yields the canonical representative
        if (PARTIAL) { got = (uint64_t)x; want = a % PR; }
        else { gl64_t z(a); got = z.get_val(); want = a % PR; } // fully reduced: the constructor reduces (to())
    } break;
    }
    if (got != want) return ctx.fail(std::string(GN[op]) + " a=" + hx(a) + " b=" + hx(b) + ": got " + hx(got) + " want " + hx(want) + " (canonical result required)");
    // compound forms
    if (op == G_ADD) { gl64_t t = x; t += y; if ((uint64_t)t != want) return ctx.fail("operator+= differs"); }
    if (op == G_SUB) { gl64_t t = x; t -= y; if ((uint64_t)t != want) return ctx.fail("operator-= differs"); }
    if (op == G_MUL) { gl64_t t = x; t *= y; if ((uint64_t)t != want) return ctx.fail("operator*= differs"); }
    if (op == G_MULW) { gl64_t t = x; t *= (uint32_t)b; if ((uint64_t)t != want) return ctx.fail("operator*=(uint32) differs"); }
    if (op == G_NEG) { if ((uint64_t)cneg(x, true) != want || (uint64_t)cneg(x, false) != a % PR) return ctx.fail("cneg differs"); }
    return true;
}
static std::string desc_op(const Case &c) { return c.prop + " " + GN[c.v[0] % G_NOPS] + " a=" + hx(c.v[1]) + " b=" + hx(c.v[2]); }

// tables: all 3 x 33 rows
static bool body_table(const Case &c, Ctx &ctx)
{
    uint64_t i = c.v[0] % 33;
    ctx.nt("table-row");
    if (GPU_omegas_declared != 33 || GPU_omegas_inv_declared != 33 || GPU_domain_size_inverse_declared != 33) return ctx.fail("device tables do not have 33 rows");
    if (sizeof(GPU_omegas) / 8 != 33 || sizeof(GPU_omegas_inv) / 8 != 33 || sizeof(GPU_domain_size_inverse) / 8 != 33) return ctx.fail("device tables do not list 33 values");
    uint64_t w = Goldilocks::toU64(Goldilocks::w(i));
    if (GPU_omegas[i] % PR != w) return ctx.fail("omegas[" + std::to_string(i) + "] = " + hx(GPU_omegas[i]) + " but the CPU root table has " + hx(w));
    if (GPU_omegas[i] >= PR || GPU_omegas_inv[i] >= PR || GPU_domain_size_inverse[i] >= PR) return ctx.fail("device table entry " + std::to_string(i) + " is not canonical");
    if (ref::mul(GPU_omegas_inv[i], w) != 1) return ctx.fail("omegas_inv[" + std::to_string(i) + "] is not the inverse of the root");
    if (ref::mul(GPU_domain_size_inverse[i], ref::pw(2, i)) != 1) return ctx.fail("domain_size_inverse[" + std::to_string(i) + "] is not the inverse of 2^" + std::to_string(i));
    // the root itself must be a primitive 2^i-th root of unity
    if (ref::pw(w, 1ull << i) != 1 || (i > 0 && ref::pw(w, 1ull << (i - 1)) != PR - 1)) return ctx.fail("root " + std::to_string(i) + " is not a primitive 2^i-th root of unity");
    return true;
}

int main(int argc, char **argv)
{
    std::vector<pbt::PropDef> props;
    props.push_back({"c20.op", [] { return rc::gen::apply([](int op, g::P2 p, int f) { return std::vector<uint64_t>{(uint64_t)op, p.first, p.second, (uint64_t)f}; },
                                                          g::irange(0, G_NOPS - 1), g::pair_any(), g::irange(0, 3)); }, body_op, 1, false, desc_op, 100});
    { pbt::PropDef p{"c20.tables", [] { return rc::gen::map(g::range(0, 32), [](uint64_t i) { return std::vector<uint64_t>{i}; }); }, body_table, 0, false, nullptr, 100};
      p.enum_count = [] { return (uint64_t)33; }; p.enum_at = [](uint64_t i) { return std::vector<uint64_t>{i}; }; props.push_back(p); }
    return pbt::harness_main(argc, argv, "h_gl64", props);
}
