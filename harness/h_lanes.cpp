// C02 / C11 — AVX2 (4-lane) and AVX512 (8-lane) kernels equal the scalar field operation in every lane.
// C13 / C14 — dot / sparse / dense 12-wide matrix kernels equal the integer matrix-vector product mod p.
// Oracle: engine/ref.hpp (unsigned __int128). Operand restrictions documented by a kernel are applied by
// construction (constrain()), never by filtering.
#include <map>
#include <memory>
#include "../engine/pbt.hpp"
#include "../engine/gen.hpp"
#include "../engine/guard.hpp"
#include "goldilocks_base_field.hpp"

using pbt::Case; using pbt::Ctx;
typedef Goldilocks::Element E;
typedef unsigned __int128 u128;
static const uint64_t PR = ref::PR;
static const uint64_t MSBv = 0x8000000000000000ull;
static const uint64_t BSMALL = 0xFFFFFFFF00000000ull;

static std::string hx(uint64_t x) { char b[32]; snprintf(b, sizeof b, "0x%016llx", (unsigned long long)x); return b; }

// ---- lane kernel table ---------------------------------------------------------------------
enum Kind { FIELD_ADD, FIELD_SUB, FIELD_MUL, FIELD_SQ, CANON, PROD128, PROD72, SQ128, RED128, RED96 };
enum Cons { C_NONE, C_A_CANON, C_B_SMALL, C_B_CANON, C_B_8, C_A_LT32 };
struct Kern {
    const char *name; int L; Kind kind; Cons cons; bool a_shifted, out_shifted;
    void (*run)(const uint64_t *a, const uint64_t *b, uint64_t *o1, uint64_t *o2);
};
#define LD4(x, p) __m256i x = _mm256_loadu_si256((const __m256i *)(p))
#define ST4(p, x) _mm256_storeu_si256((__m256i *)(p), x)
static const Kern KERNS[] = {
    {"c02.toCanonical_avx", 4, CANON, C_NONE, false, false, [](const uint64_t *a, const uint64_t *, uint64_t *o, uint64_t *) { LD4(x, a); __m256i c; Goldilocks::toCanonical_avx(c, x); ST4(o, c); }},
    {"c02.toCanonical_avx_s", 4, CANON, C_NONE, true, true, [](const uint64_t *a, const uint64_t *, uint64_t *o, uint64_t *) { LD4(x, a); __m256i c; Goldilocks::toCanonical_avx_s(c, x); ST4(o, c); }},
    {"c02.add_avx", 4, FIELD_ADD, C_NONE, false, false, [](const uint64_t *a, const uint64_t *b, uint64_t *o, uint64_t *) { LD4(x, a); LD4(y, b); __m256i c; Goldilocks::add_avx(c, x, y); ST4(o, c); }},
    {"c02.add_avx_a_sc", 4, FIELD_ADD, C_A_CANON, true, false, [](const uint64_t *a, const uint64_t *b, uint64_t *o, uint64_t *) { LD4(x, a); LD4(y, b); __m256i c; Goldilocks::add_avx_a_sc(c, x, y); ST4(o, c); }},
    {"c02.add_avx_s_b_small", 4, FIELD_ADD, C_B_SMALL, true, true, [](const uint64_t *a, const uint64_t *b, uint64_t *o, uint64_t *) { LD4(x, a); LD4(y, b); __m256i c; Goldilocks::add_avx_s_b_small(c, x, y); ST4(o, c); }},
    {"c02.add_avx_b_small", 4, FIELD_ADD, C_B_SMALL, false, false, [](const uint64_t *a, const uint64_t *b, uint64_t *o, uint64_t *) { LD4(x, a); LD4(y, b); __m256i c; Goldilocks::add_avx_b_small(c, x, y); ST4(o, c); }},
    {"c02.sub_avx", 4, FIELD_SUB, C_NONE, false, false, [](const uint64_t *a, const uint64_t *b, uint64_t *o, uint64_t *) { LD4(x, a); LD4(y, b); __m256i c; Goldilocks::sub_avx(c, x, y); ST4(o, c); }},
    {"c02.sub_avx_s_b_small", 4, FIELD_SUB, C_B_SMALL, true, true, [](const uint64_t *a, const uint64_t *b, uint64_t *o, uint64_t *) { LD4(x, a); LD4(y, b); __m256i c; Goldilocks::sub_avx_s_b_small(c, x, y); ST4(o, c); }},
    {"c02.mult_avx", 4, FIELD_MUL, C_NONE, false, false, [](const uint64_t *a, const uint64_t *b, uint64_t *o, uint64_t *) { LD4(x, a); LD4(y, b); __m256i c; Goldilocks::mult_avx(c, x, y); ST4(o, c); }},
    {"c02.mult_avx_8", 4, FIELD_MUL, C_B_8, false, false, [](const uint64_t *a, const uint64_t *b, uint64_t *o, uint64_t *) { LD4(x, a); LD4(y, b); __m256i c; Goldilocks::mult_avx_8(c, x, y); ST4(o, c); }},
    {"c02.mult_avx_128", 4, PROD128, C_NONE, false, false, [](const uint64_t *a, const uint64_t *b, uint64_t *o, uint64_t *o2) { LD4(x, a); LD4(y, b); __m256i h, l; Goldilocks::mult_avx_128(h, l, x, y); ST4(o, h); ST4(o2, l); }},
    {"c02.mult_avx_72", 4, PROD72, C_B_8, false, false, [](const uint64_t *a, const uint64_t *b, uint64_t *o, uint64_t *o2) { LD4(x, a); LD4(y, b); __m256i h, l; Goldilocks::mult_avx_72(h, l, x, y); ST4(o, h); ST4(o2, l); }},
    {"c02.square_avx", 4, FIELD_SQ, C_NONE, false, false, [](const uint64_t *a, const uint64_t *, uint64_t *o, uint64_t *) { LD4(x, a); __m256i c; Goldilocks::square_avx(c, x); ST4(o, c); }},
    {"c02.square_avx_128", 4, SQ128, C_NONE, false, false, [](const uint64_t *a, const uint64_t *, uint64_t *o, uint64_t *o2) { LD4(x, a); __m256i h, l; Goldilocks::square_avx_128(h, l, x); ST4(o, h); ST4(o2, l); }},
    {"c02.reduce_avx_128_64", 4, RED128, C_NONE, false, false, [](const uint64_t *a, const uint64_t *b, uint64_t *o, uint64_t *) { LD4(x, a); LD4(y, b); __m256i c; Goldilocks::reduce_avx_128_64(c, x, y); ST4(o, c); }},
    {"c02.reduce_avx_96_64", 4, RED96, C_A_LT32, false, false, [](const uint64_t *a, const uint64_t *b, uint64_t *o, uint64_t *) { LD4(x, a); LD4(y, b); __m256i c; Goldilocks::reduce_avx_96_64(c, x, y); ST4(o, c); }},
#ifdef __AVX512__
#define LD8(x, p) __m512i x = _mm512_loadu_si512((const void *)(p))
#define ST8(p, x) _mm512_storeu_si512((void *)(p), x)
    {"c11.toCanonical_avx512", 8, CANON, C_NONE, false, false, [](const uint64_t *a, const uint64_t *, uint64_t *o, uint64_t *) { LD8(x, a); __m512i c; Goldilocks::toCanonical_avx512(c, x); ST8(o, c); }},
    {"c11.add_avx512", 8, FIELD_ADD, C_NONE, false, false, [](const uint64_t *a, const uint64_t *b, uint64_t *o, uint64_t *) { LD8(x, a); LD8(y, b); __m512i c; Goldilocks::add_avx512(c, x, y); ST8(o, c); }},
    {"c11.add_avx512_b_c", 8, FIELD_ADD, C_B_CANON, false, false, [](const uint64_t *a, const uint64_t *b, uint64_t *o, uint64_t *) { LD8(x, a); LD8(y, b); __m512i c; Goldilocks::add_avx512_b_c(c, x, y); ST8(o, c); }},
    {"c11.sub_avx512", 8, FIELD_SUB, C_NONE, false, false, [](const uint64_t *a, const uint64_t *b, uint64_t *o, uint64_t *) { LD8(x, a); LD8(y, b); __m512i c; Goldilocks::sub_avx512(c, x, y); ST8(o, c); }},
    {"c11.sub_avx512_b_c", 8, FIELD_SUB, C_B_CANON, false, false, [](const uint64_t *a, const uint64_t *b, uint64_t *o, uint64_t *) { LD8(x, a); LD8(y, b); __m512i c; Goldilocks::sub_avx512_b_c(c, x, y); ST8(o, c); }},
    {"c11.mult_avx512", 8, FIELD_MUL, C_NONE, false, false, [](const uint64_t *a, const uint64_t *b, uint64_t *o, uint64_t *) { LD8(x, a); LD8(y, b); __m512i c; Goldilocks::mult_avx512(c, x, y); ST8(o, c); }},
    {"c11.mult_avx512_8", 8, FIELD_MUL, C_B_8, false, false, [](const uint64_t *a, const uint64_t *b, uint64_t *o, uint64_t *) { LD8(x, a); LD8(y, b); __m512i c; Goldilocks::mult_avx512_8(c, x, y); ST8(o, c); }},
    {"c11.mult_avx512_128", 8, PROD128, C_NONE, false, false, [](const uint64_t *a, const uint64_t *b, uint64_t *o, uint64_t *o2) { LD8(x, a); LD8(y, b); __m512i h, l; Goldilocks::mult_avx512_128(h, l, x, y); ST8(o, h); ST8(o2, l); }},
    {"c11.mult_avx512_72", 8, PROD72, C_B_8, false, false, [](const uint64_t *a, const uint64_t *b, uint64_t *o, uint64_t *o2) { LD8(x, a); LD8(y, b); __m512i h, l; Goldilocks::mult_avx512_72(h, l, x, y); ST8(o, h); ST8(o2, l); }},
    {"c11.square_avx512", 8, FIELD_SQ, C_NONE, false, false, [](const uint64_t *a, const uint64_t *, uint64_t *o, uint64_t *) { LD8(x, a); __m512i c; Goldilocks::square_avx512(c, x); ST8(o, c); }},
    {"c11.square_avx512_128", 8, SQ128, C_NONE, false, false, [](const uint64_t *a, const uint64_t *, uint64_t *o, uint64_t *o2) { LD8(x, a); __m512i h, l; Goldilocks::square_avx512_128(h, l, x); ST8(o, h); ST8(o2, l); }},
    {"c11.reduce_avx512_128_64", 8, RED128, C_NONE, false, false, [](const uint64_t *a, const uint64_t *b, uint64_t *o, uint64_t *) { LD8(x, a); LD8(y, b); __m512i c; Goldilocks::reduce_avx512_128_64(c, x, y); ST8(o, c); }},
    {"c11.reduce_avx512_96_64", 8, RED96, C_A_LT32, false, false, [](const uint64_t *a, const uint64_t *b, uint64_t *o, uint64_t *) { LD8(x, a); LD8(y, b); __m512i c; Goldilocks::reduce_avx512_96_64(c, x, y); ST8(o, c); }},
#endif
};
static const int NK = sizeof(KERNS) / sizeof(KERNS[0]);
// ---- in-place forms: the output register is the same object as an operand ---------------------------------
// (the library itself calls its kernels this way: add_avx(st0, st0, c0), mult_avx(A_, A_, aux0_), ...). Relation checked: the result
// is bit-identical to the call with a separate output register.
typedef void (*RunFn)(const uint64_t *a, const uint64_t *b, uint64_t *o1, uint64_t *o2);
struct Alias { const char *name; RunFn out_is_a, out_is_b; };
#define SIG const uint64_t *a, const uint64_t *b, uint64_t *o, uint64_t *o2
#define A4_BIN(fn) [](SIG) { LD4(x, a); LD4(y, b); Goldilocks::fn(x, x, y); ST4(o, x); }, [](SIG) { LD4(x, a); LD4(y, b); Goldilocks::fn(y, x, y); ST4(o, y); }
#define A4_UN(fn) [](SIG) { LD4(x, a); Goldilocks::fn(x, x); ST4(o, x); }, nullptr
#define A4_BIN2(fn) [](SIG) { LD4(x, a); LD4(y, b); Goldilocks::fn(x, y, x, y); ST4(o, x); ST4(o2, y); }, [](SIG) { LD4(x, a); LD4(y, b); Goldilocks::fn(y, x, x, y); ST4(o, y); ST4(o2, x); }
#define A4_UN2(fn) [](SIG) { LD4(x, a); __m256i l; Goldilocks::fn(x, l, x); ST4(o, x); ST4(o2, l); }, [](SIG) { LD4(x, a); __m256i h; Goldilocks::fn(h, x, x); ST4(o, h); ST4(o2, x); }
static const Alias ALIASES[] = {
    {"c02.toCanonical_avx", A4_UN(toCanonical_avx)}, {"c02.toCanonical_avx_s", A4_UN(toCanonical_avx_s)},
    {"c02.add_avx", A4_BIN(add_avx)}, {"c02.add_avx_a_sc", A4_BIN(add_avx_a_sc)}, {"c02.add_avx_s_b_small", A4_BIN(add_avx_s_b_small)}, {"c02.add_avx_b_small", A4_BIN(add_avx_b_small)},
    {"c02.sub_avx", A4_BIN(sub_avx)}, {"c02.sub_avx_s_b_small", A4_BIN(sub_avx_s_b_small)},
    {"c02.mult_avx", A4_BIN(mult_avx)}, {"c02.mult_avx_8", A4_BIN(mult_avx_8)}, {"c02.mult_avx_128", A4_BIN2(mult_avx_128)}, {"c02.mult_avx_72", A4_BIN2(mult_avx_72)},
    {"c02.square_avx", A4_UN(square_avx)}, {"c02.square_avx_128", A4_UN2(square_avx_128)},
    {"c02.reduce_avx_128_64", A4_BIN(reduce_avx_128_64)}, {"c02.reduce_avx_96_64", A4_BIN(reduce_avx_96_64)},
#ifdef __AVX512__
#define A8_BIN(fn) [](SIG) { LD8(x, a); LD8(y, b); Goldilocks::fn(x, x, y); ST8(o, x); }, [](SIG) { LD8(x, a); LD8(y, b); Goldilocks::fn(y, x, y); ST8(o, y); }
#define A8_UN(fn) [](SIG) { LD8(x, a); Goldilocks::fn(x, x); ST8(o, x); }, nullptr
#define A8_BIN2(fn) [](SIG) { LD8(x, a); LD8(y, b); Goldilocks::fn(x, y, x, y); ST8(o, x); ST8(o2, y); }, [](SIG) { LD8(x, a); LD8(y, b); Goldilocks::fn(y, x, x, y); ST8(o, y); ST8(o2, x); }
#define A8_UN2(fn) [](SIG) { LD8(x, a); __m512i l; Goldilocks::fn(x, l, x); ST8(o, x); ST8(o2, l); }, [](SIG) { LD8(x, a); __m512i h; Goldilocks::fn(h, x, x); ST8(o, h); ST8(o2, x); }
    {"c11.toCanonical_avx512", A8_UN(toCanonical_avx512)}, {"c11.add_avx512", A8_BIN(add_avx512)}, {"c11.add_avx512_b_c", A8_BIN(add_avx512_b_c)},
    {"c11.sub_avx512", A8_BIN(sub_avx512)}, {"c11.sub_avx512_b_c", A8_BIN(sub_avx512_b_c)}, {"c11.mult_avx512", A8_BIN(mult_avx512)}, {"c11.mult_avx512_8", A8_BIN(mult_avx512_8)},
    {"c11.mult_avx512_128", A8_BIN2(mult_avx512_128)}, {"c11.mult_avx512_72", A8_BIN2(mult_avx512_72)}, {"c11.square_avx512", A8_UN(square_avx512)}, {"c11.square_avx512_128", A8_UN2(square_avx512_128)},
    {"c11.reduce_avx512_128_64", A8_BIN(reduce_avx512_128_64)}, {"c11.reduce_avx512_96_64", A8_BIN(reduce_avx512_96_64)},
#endif
};
static const Alias *alias_by_name(const std::string &n) { for (auto &x : ALIASES) if (n == x.name) return &x; return nullptr; }

static const Kern *kern_by_name(const std::string &n) { for (int i = 0; i < NK; i++) if (n == KERNS[i].name) return &KERNS[i]; return nullptr; }

static void constrain(const Kern &k, uint64_t &a, uint64_t &b)
{
    switch (k.cons) {
    case C_A_CANON: a %= PR; break;
    case C_B_SMALL: if (b > BSMALL) b = (b & 1) ? BSMALL - (UINT64_MAX - b) : b - BSMALL - 1; break; // fold the 2^32-1 excluded values onto both edges of the allowed range
    case C_B_CANON: b %= PR; break;
    case C_B_8: b &= 0xFF; break;
    case C_A_LT32: a &= 0xFFFFFFFFull; break;
    default: break;
    }
}

// payload: a[0..L) b[0..L)
static bool body_lane(const Case &c, Ctx &ctx)
{
    const Kern *k = kern_by_name(c.prop);
    if (!k) return ctx.fail("unknown kernel");
    const int L = k->L;
    alignas(64) uint64_t a[8], b[8], ka[8], o1[8], o2[8];
    bool nt = false;
    for (int i = 0; i < L; i++) {
        a[i] = c.v[i]; b[i] = c.v[L + i];
        constrain(*k, a[i], b[i]);
        ka[i] = k->a_shifted ? a[i] ^ MSBv : a[i];
        o1[i] = o2[i] = 0xABABABABABABABABull;
    }
    { bool bc = true; int zl = 0; for (int i = 0; i < L; i++) { if (a[i] != a[0] || b[i] != b[0]) bc = false; if (a[i] == 0 && b[i] == 0) zl++; }
      if (bc) ctx.cls("register:one-pair-broadcast-to-all-lanes"); else if (zl == L - 1) ctx.cls("register:one-live-lane-among-zero-lanes"); }
    k->run(ka, b, o1, o2);
    for (int i = 0; i < L; i++) {
        uint64_t r = k->out_shifted ? o1[i] ^ MSBv : o1[i];
        uint64_t A = a[i], B = b[i];
        std::string lane = " lane " + std::to_string(i) + " a=" + hx(A) + " b=" + hx(B);
        switch (k->kind) {
        case FIELD_ADD: {
            uint64_t w = ref::add(A, B);
            u128 s = (u128)(k->cons == C_B_SMALL || k->cons == C_B_CANON ? A : A % PR) + B;
            if (A >= PR) { ctx.cls("lane:a>=p"); nt = true; }
            if (s >> 64) { ctx.cls("lane:add-wrap"); nt = true; }
            if ((A >> 32) == (((uint64_t)s) >> 32)) { ctx.cls("lane:equal-high-halves"); nt = true; }
            if (r % PR != w) return ctx.fail("add:" + lane + " got " + hx(r) + " want " + hx(w));
        } break;
        case FIELD_SUB: {
            uint64_t w = ref::sub(A, B);
            if (B >= PR) { ctx.cls("lane:b>=p"); nt = true; }
            if (A < B % PR) { ctx.cls("lane:sub-borrow"); nt = true; }
            if ((A >> 32) == ((A - B) >> 32)) { ctx.cls("lane:equal-high-halves"); nt = true; }
            if (r % PR != w) return ctx.fail("sub:" + lane + " got " + hx(r) + " want " + hx(w));
        } break;
        case FIELD_MUL: case FIELD_SQ: {
            if (k->kind == FIELD_SQ) B = A;
            uint64_t w = ref::mul(A, B);
            u128 n = (u128)A * B; uint64_t hi = (uint64_t)(n >> 64), lo = (uint64_t)n;
            if (lo < (hi >> 32)) { ctx.cls("lane:reduce-borrow"); nt = true; }
            if ((u128)(lo - (hi >> 32)) + (u128)(hi & 0xFFFFFFFFull) * 0xFFFFFFFFull >> 64) { ctx.cls("lane:reduce-wrap"); nt = true; }
            if (A >= PR || B >= PR) { ctx.cls("lane:noncanonical-operand"); nt = true; }
            if (r >= PR) { ctx.cls("lane:raw-result>=p"); nt = true; }
            if (k->cons == C_B_8 && ((((A >> 32) * B) & 0xFFFFFFFFull) + (((A & 0xFFFFFFFFull) * B) >> 32)) >> 32) { ctx.cls("lane:72-bit-carry-into-high-part"); nt = true; }
            if (r % PR != w) return ctx.fail("mul:" + lane + " got " + hx(r) + " want " + hx(w));
        } break;
        case CANON: {
            if (A >= PR) { ctx.cls("lane:a>=p"); nt = true; } else if (A >= PR - 4) { ctx.cls("lane:just-below-p"); nt = true; }
            if (r != A % PR) return ctx.fail("canonicalise:" + lane + " got " + hx(r) + " want " + hx(A % PR));
        } break;
        case PROD128: case PROD72: case SQ128: {
            if (k->kind == SQ128) B = A;
            u128 n = (u128)A * B;
            u128 got = ((u128)o1[i] << 64) | o2[i];
            if (((A & 0xFFFFFFFFull) * (B >> 32) + (((A & 0xFFFFFFFFull) * (B & 0xFFFFFFFFull)) >> 32)) >> 32 && ((A >> 32) * (B & 0xFFFFFFFFull)) >> 32) nt = true;
            if ((uint64_t)(n >> 64) == 0) ctx.cls("lane:product-fits-64"); else { ctx.cls("lane:product-128"); nt = true; }
            if (k->cons == C_B_8 && ((((A >> 32) * B) & 0xFFFFFFFFull) + (((A & 0xFFFFFFFFull) * B) >> 32)) >> 32) { ctx.cls("lane:72-bit-carry-into-high-part"); nt = true; }
            if (got != n) return ctx.fail("product:" + lane + " got " + hx(o1[i]) + ":" + hx(o2[i]) + " want " + hx((uint64_t)(n >> 64)) + ":" + hx((uint64_t)n));
            if (k->kind == PROD72 && (o1[i] >> 32)) return ctx.fail("72-bit product: high word not below 2^32" + lane);
        } break;
        case RED128: case RED96: {
            // a = c_h, b = c_l
            uint64_t w = ref::add(ref::mul(A, 0xFFFFFFFFull /* 2^64 mod p */), B);
            if (B < (A >> 32)) { ctx.cls("lane:reduce-borrow"); nt = true; }
            if (B >= PR) { ctx.cls("lane:c_l>=p"); nt = true; }
            if ((u128)(B - (A >> 32)) + (u128)(A & 0xFFFFFFFFull) * 0xFFFFFFFFull >> 64) { ctx.cls("lane:reduce-wrap"); nt = true; }
            if (r % PR != w) return ctx.fail("reduce:" + lane + " got " + hx(r) + " want " + hx(w));
        } break;
        }
    }
    // in-place forms (output register = an operand): must give bit-identical lanes
    if (const Alias *al = alias_by_name(c.prop)) {
        alignas(64) uint64_t p1[8], p2[8];
        RunFn fns[2] = {al->out_is_a, al->out_is_b};
        for (int w = 0; w < 2; w++) {
            if (!fns[w]) continue;
            for (int i = 0; i < L; i++) p1[i] = p2[i] = 0xABABABABABABABABull;
            fns[w](ka, b, p1, p2);
            for (int i = 0; i < L; i++)
                if (p1[i] != o1[i] || ((k->kind == PROD128 || k->kind == PROD72 || k->kind == SQ128) && p2[i] != o2[i]))
                    return ctx.fail(std::string("in-place call (output register is the ") + (w == 0 ? "first" : "second") + " operand) differs from the call with a separate output: lane " + std::to_string(i) + " a=" + hx(a[i]) + " b=" + hx(b[i]) + " got " + hx(p1[i]) + " expected " + hx(o1[i]));
        }
        ctx.cls("lane:in-place-forms-checked");
    }
    if (nt) ctx.nontrivial = true;
    return true;
}
static std::string desc_lane(const Case &c)
{
    const Kern *k = kern_by_name(c.prop);
    std::string s = c.prop;
    if (!k) return s;
    for (int i = 0; i < k->L; i++) { uint64_t a = c.v[i], b = c.v[k->L + i]; constrain(*k, a, b); s += " [" + hx(a) + "," + hx(b) + "]"; }
    return s;
}
static rc::Gen<std::vector<uint64_t>> gen_lane(const Kern *k)
{
    rc::Gen<g::P2> pg = (k->kind == FIELD_ADD) ? g::pair_add() : (k->kind == FIELD_SUB) ? g::pair_sub()
                      : (k->kind == RED128 || k->kind == RED96) ? rc::gen::weightedOneOf<g::P2>({{2, g::pair_hilo()}, {2, g::pair_indep()}, {1, g::pair_sub_solved()}})
                      : (k->kind == CANON) ? rc::gen::pair(rc::gen::weightedOneOf<uint64_t>({{2, g::fe()}, {2, g::delta(PR, 8)}, {1, g::delta(PR ^ MSBv, 8)}}), g::uni64())
                      : g::pair_mul();
    if (k->cons == C_B_8) {
        // 64x8-bit products: solve for the carry chain of the 72-bit schoolbook product. With a_l close to 2^32 the term (a_l*b)>>32 is b-1;
        // a_h = floor((j*2^32 - 1)/b) makes low32(a_h*b) = 2^32 - r with r in [1,b], so low32(a_h*b) + ((a_l*b)>>32) reaches / straddles 2^32
        // (the carry from the low partial product into bits 64..71), which uniform operands meet with probability about b/2^33
        auto solved72 = rc::gen::apply([](uint64_t bsel, uint64_t jsel, uint64_t eps, uint64_t dl) -> g::P2 {
            uint64_t b = 1 + bsel % 255; if (bsel & 0x100) b = 255 - (bsel >> 9) % 4;
            uint64_t j = 1 + jsel % b;
            uint64_t ah = (uint64_t)((((unsigned __int128)j << 32) - 1 - (eps % 3)) / b) & 0xFFFFFFFFull;
            uint64_t al = 0xFFFFFFFFull - (dl % 5);
            if (dl & 0x100) al = (uint64_t)((((unsigned __int128)1 << 32) * (1 + (dl >> 9) % b)) / b) & 0xFFFFFFFFull; // (a_l*b)>>32 just below / at a multiple
            return g::P2{(ah << 32) | al, b};
        }, g::uni64(), g::uni64(), g::uni64(), g::uni64());
        pg = rc::gen::weightedOneOf<g::P2>({{3, pg}, {3, solved72}});
    }
    int L = k->L;
    // register-level shapes on top of the per-lane pairs: independent lanes (usual), one pair broadcast to every lane, one interesting lane among
    // zero lanes / among copies of another lane (what a whole-register fast path or a cross-lane slip would need)
    return rc::gen::apply([L](const std::vector<g::P2> &ps, uint64_t mode) {
        std::vector<uint64_t> v(2 * L);
        for (int i = 0; i < L; i++) { v[i] = ps[i].first; v[L + i] = ps[i].second; }
        const int sh = (int)(mode % 10), /* 0-4 independent lanes */ k = (int)((mode >> 8) % (uint64_t)L), j = (int)((mode >> 16) % (uint64_t)L);
        if (sh == 6) for (int i = 0; i < L; i++) { v[i] = ps[k].first; v[L + i] = ps[k].second; }
        else if (sh == 7) for (int i = 0; i < L; i++) if (i != k) { v[i] = (mode >> 24) & 1 ? 0 : ps[j].first; v[L + i] = (mode >> 25) & 1 ? 0 : ps[j].second; }
        else if (sh == 8) for (int i = 0; i < L; i++) if (i != k) { v[L + i] = ps[i].second & 0xFFFFFFFFull; }   // every second operand but one fits 32 bits
        else if (sh == 9) for (int i = 0; i < L; i++) if (i != k) { v[i] = ps[i].first % PR; v[L + i] = ps[i].second % PR; } // every lane canonical but one
        else if (sh == 5) { const bool upper = (mode >> 24) & 1; for (int i = 0; i < L; i++) if ((i >= L / 2) == upper) { v[i] &= 0xFFFFFFFFull; v[L + i] &= 0xFFFFFFFFull; } } // one half of the register: both operands fit 32 bits
        return v;
    }, rc::gen::container<std::vector<g::P2>>(L, pg), g::uni64());
}

// ---- matrix kernels (C13 AVX2, C14 AVX512) -------------------------------------------------
// payload: state s[0..12*S) (S = 1 for AVX2, 2 for AVX512: state A then state B), then the coefficient array, then flags
enum MK { M_SPMV, M_SPMV_A, M_SPMV_8, M_DOT, M_DOT_A, M_MM4, M_MM4_A, M_MM4_8, M_MM, M_MM_A, M_MM_8 };
struct MKern { const char *name; int S; MK kind; int ncoef; bool eight; };
static const MKern MKERNS[] = {
    {"c13.spmv_avx_4x12", 1, M_SPMV, 12, false}, {"c13.spmv_avx_4x12_a", 1, M_SPMV_A, 12, false}, {"c13.spmv_avx_4x12_8", 1, M_SPMV_8, 12, true},
    {"c13.dot_avx", 1, M_DOT, 12, false}, {"c13.dot_avx_a", 1, M_DOT_A, 12, false},
    {"c13.mmult_avx_4x12", 1, M_MM4, 48, false}, {"c13.mmult_avx_4x12_a", 1, M_MM4_A, 48, false}, {"c13.mmult_avx_4x12_8", 1, M_MM4_8, 48, true},
    {"c13.mmult_avx", 1, M_MM, 144, false}, {"c13.mmult_avx_a", 1, M_MM_A, 144, false}, {"c13.mmult_avx_8", 1, M_MM_8, 144, true},
#ifdef __AVX512__
    {"c14.spmv_avx512_4x12", 2, M_SPMV, 12, false}, {"c14.spmv_avx512_4x12_8", 2, M_SPMV_8, 12, true}, {"c14.dot_avx512", 2, M_DOT, 12, false},
    {"c14.mmult_avx512_4x12", 2, M_MM4, 48, false}, {"c14.mmult_avx512_4x12_8", 2, M_MM4_8, 48, true},
    {"c14.mmult_avx512", 2, M_MM, 144, false}, {"c14.mmult_avx512_8", 2, M_MM_8, 144, true},
#endif
};
static const int NMK = sizeof(MKERNS) / sizeof(MKERNS[0]);
static const MKern *mkern_by_name(const std::string &n) { for (int i = 0; i < NMK; i++) if (n == MKERNS[i].name) return &MKERNS[i]; return nullptr; }

// raw representation the lane multiplier produces (classification only)
static uint64_t raw_mul_lane(uint64_t a, uint64_t b)
{
    alignas(32) uint64_t x[4] = {a, 0, 0, 0}, y[4] = {b, 0, 0, 0}, o[4];
    LD4(vx, x); LD4(vy, y); __m256i c; Goldilocks::mult_avx(c, vx, vy); ST4(o, c);
    return o[0];
}

static bool body_mat(const Case &c, Ctx &ctx)
{
    const MKern *k = mkern_by_name(c.prop);
    if (!k) return ctx.fail("unknown kernel");
    const int S = k->S;
    uint64_t st[2][12];
    for (int s = 0; s < S; s++) for (int i = 0; i < 12; i++) st[s][i] = c.v[12 * s + i];
    // coefficient array; exact-size heap block; aligned variants get a 64-byte aligned block, unaligned ones a deliberately misaligned one
    bool want_aligned = (k->kind == M_SPMV_A || k->kind == M_DOT_A || k->kind == M_MM4_A || k->kind == M_MM_A);
    size_t nb = (size_t)k->ncoef * 8;
    // the array ends exactly at a guard page (sizes are multiples of 32 bytes, so it is 32-byte aligned); unaligned variants
    // alternate between that placement and a deliberately misaligned one (8 bytes before the guard)
    bool misalign = !want_aligned && (c.v[0] & 1);
    // the array usually lives in ONE persistent buffer per (size, placement): the same pointer is passed case after case while its content
    // changes, so that anything keyed on the pointer value (a cached verdict about the matrix, a memo) goes stale at once; now and then a fresh mapping
    static std::map<std::pair<size_t, size_t>, std::unique_ptr<guard::Buf>> pool;
    guard::Buf fresh; guard::Buf *gbp = &fresh;
    if (((c.v[0] >> 1) & 3) != 0 && !pbt::in_concurrent()) { auto &q = pool[{nb, misalign ? 8 : 0}]; if (!q) q.reset(new guard::Buf(nb, misalign ? 8 : 0)); gbp = q.get(); ctx.cls("mat:coefficient-array-at-a-persistent-address"); }
    else fresh.alloc(nb, misalign ? 8 : 0);
    E *co = gbp->as<E>();
    const uint64_t *pc = &c.v[12 * S];
    for (int i = 0; i < k->ncoef; i++) co[i].fe = k->eight ? (pc[i] & 0xFF) : pc[i];
    // expected
    auto spmv_ref = [&](int s, const E *bb, uint64_t out[4]) { for (int i = 0; i < 4; i++) { uint64_t acc = 0; for (int j = 0; j < 3; j++) acc = ref::add(acc, ref::mul(st[s][4 * j + i], bb[4 * j + i].fe)); out[i] = acc; } };
    auto mm4_ref = [&](int s, const E *M, uint64_t out[4]) { for (int kq = 0; kq < 4; kq++) { uint64_t acc = 0; for (int t = 0; t < 12; t++) acc = ref::add(acc, ref::mul(st[s][t], M[12 * kq + t].fe)); out[kq] = acc; } };
    // classification: number of non-canonical raw lane products per output lane
    {
        int maxnc = 0; bool nc_state = false;
        for (int s = 0; s < S; s++) for (int i = 0; i < 12; i++) if (st[s][i] >= PR) nc_state = true;
        if (!k->eight) {
            int rows = k->ncoef / 12;
            for (int s = 0; s < S; s++) for (int r = 0; r < rows && r < 4; r++) for (int i = 0; i < 4; i++) {
                int nc = 0; for (int j = 0; j < 3; j++) if (raw_mul_lane(st[s][4 * j + i], co[12 * r + 4 * j + i].fe) >= PR) nc++;
                if (nc > maxnc) maxnc = nc;
            }
        }
        if (k->eight) {
            // 8-bit kernels: 72-bit products; class by the integer sums the kernel forms per lane
            int rows = k->ncoef / 12; bool hsum = false, lband = false;
            for (int s = 0; s < S; s++) for (int r = 0; r < rows; r++) for (int i = 0; i < 4; i++) {
                uint64_t hs = 0; int band = 0;
                for (int j = 0; j < 3; j++) { unsigned __int128 pr = (unsigned __int128)st[s][4 * j + i] * co[12 * r + 4 * j + i].fe; hs += (uint64_t)(pr >> 64); if ((uint64_t)pr > 0xFFFFFFFF00000000ull) band++; }
                if (hs > 255) hsum = true; if (band >= 2) lband = true;
            }
            if (hsum) ctx.nt("mat8:high-parts-sum>255"); if (lband) ctx.nt("mat8:>=2-low-parts-above-0xFFFFFFFF00000000-in-a-lane");
        }
        if (maxnc >= 2) ctx.nt("mat:>=2-noncanonical-products-in-a-lane"); else if (maxnc == 1) ctx.nt("mat:1-noncanonical-product"); else if (nc_state) ctx.nt("mat:noncanonical-state"); else ctx.cls("mat:all-canonical");
        { int nz = 0; for (int i = 0; i < 12; i++) if (st[0][i] % PR) nz++; if (nz <= 4) ctx.cls("mat:sparse-state(<=4-non-zero)"); }
        if (!k->eight) { uint64_t orc = 0; for (int i = 0; i < k->ncoef; i++) orc |= co[i].fe; int bits = orc ? 64 - __builtin_clzll(orc) : 0;
            if (bits > 8 && bits <= 32) ctx.nt("mat:all-coefficients-fit-32-bits(>8)"); else if (bits > 32 && bits < 64) ctx.cls("mat:all-coefficients-below-2^63"); else if (bits <= 8) ctx.cls("mat:all-coefficients-fit-8-bits"); }
        if (want_aligned) ctx.cls("mat:aligned-variant"); else ctx.cls(misalign ? "mat:misaligned-array" : "mat:array-ends-at-guard-page");
    }
    bool ok = true; std::string why;
    auto cmp = [&](const char *what, int s, int idx, uint64_t got, uint64_t want) {
        if (ok && got % PR != want) { ok = false; why = std::string(what) + " state " + std::to_string(s) + " element " + std::to_string(idx) + ": got " + hx(got) + " want " + hx(want); }
    };
    if (S == 1) {
        alignas(32) uint64_t s0[12]; memcpy(s0, st[0], sizeof s0);
        __m256i a0 = _mm256_load_si256((__m256i *)&s0[0]), a1 = _mm256_load_si256((__m256i *)&s0[4]), a2 = _mm256_load_si256((__m256i *)&s0[8]);
        alignas(32) uint64_t o[12]; uint64_t w[4];
        switch (k->kind) {
        case M_SPMV: case M_SPMV_A: case M_SPMV_8: {
            __m256i r; if (k->kind == M_SPMV) Goldilocks::spmv_avx_4x12(r, a0, a1, a2, co); else if (k->kind == M_SPMV_A) Goldilocks::spmv_avx_4x12_a(r, a0, a1, a2, co); else Goldilocks::spmv_avx_4x12_8(r, a0, a1, a2, co);
            ST4(o, r); spmv_ref(0, co, w); for (int i = 0; i < 4; i++) cmp("spmv", 0, i, o[i], w[i]);
            // in-place form: the result register is one of the state registers (bit-identical result expected)
            { __m256i t[3] = {a0, a1, a2}; int wch = (int)(c.v[1] % 3);
              if (k->kind == M_SPMV) Goldilocks::spmv_avx_4x12(t[wch], t[0], t[1], t[2], co); else if (k->kind == M_SPMV_A) Goldilocks::spmv_avx_4x12_a(t[wch], t[0], t[1], t[2], co); else Goldilocks::spmv_avx_4x12_8(t[wch], t[0], t[1], t[2], co);
              alignas(32) uint64_t q[4]; ST4(q, t[wch]); for (int i = 0; i < 4; i++) if (ok && q[i] != o[i]) { ok = false; why = "spmv with the result register being state register " + std::to_string(wch) + " differs from the call with a separate result register (lane " + std::to_string(i) + ")"; } }
        } break;
        case M_DOT: case M_DOT_A: {
            E r = k->kind == M_DOT ? Goldilocks::dot_avx(a0, a1, a2, co) : Goldilocks::dot_avx_a(a0, a1, a2, co);
            spmv_ref(0, co, w); cmp("dot", 0, 0, r.fe, ref::add(ref::add(w[0], w[1]), ref::add(w[2], w[3])));
        } break;
        case M_MM4: case M_MM4_A: case M_MM4_8: {
            __m256i r; if (k->kind == M_MM4) Goldilocks::mmult_avx_4x12(r, a0, a1, a2, co); else if (k->kind == M_MM4_A) Goldilocks::mmult_avx_4x12_a(r, a0, a1, a2, co); else Goldilocks::mmult_avx_4x12_8(r, a0, a1, a2, co);
            ST4(o, r); mm4_ref(0, co, w); for (int i = 0; i < 4; i++) cmp("mmult_4x12", 0, i, o[i], w[i]);
            { __m256i t[3] = {a0, a1, a2}; int wch = (int)(c.v[1] % 3);
              if (k->kind == M_MM4) Goldilocks::mmult_avx_4x12(t[wch], t[0], t[1], t[2], co); else if (k->kind == M_MM4_A) Goldilocks::mmult_avx_4x12_a(t[wch], t[0], t[1], t[2], co); else Goldilocks::mmult_avx_4x12_8(t[wch], t[0], t[1], t[2], co);
              alignas(32) uint64_t q[4]; ST4(q, t[wch]); for (int i = 0; i < 4; i++) if (ok && q[i] != o[i]) { ok = false; why = "mmult_4x12 with the result register being state register " + std::to_string(wch) + " differs from the call with a separate result register (lane " + std::to_string(i) + ")"; } }
        } break;
        default: {
            if (k->kind == M_MM) Goldilocks::mmult_avx(a0, a1, a2, co); else if (k->kind == M_MM_A) Goldilocks::mmult_avx_a(a0, a1, a2, co); else Goldilocks::mmult_avx_8(a0, a1, a2, co);
            ST4(&o[0], a0); ST4(&o[4], a1); ST4(&o[8], a2);
            for (int blk = 0; blk < 3; blk++) { mm4_ref(0, co + 48 * blk, w); for (int i = 0; i < 4; i++) cmp("mmult", 0, 4 * blk + i, o[4 * blk + i], w[i]); }
        } break;
        }
    }
#ifdef __AVX512__
    else {
        // interleaved layout: a_j = [A[4j..4j+3] | B[4j..4j+3]]
        alignas(64) uint64_t il[24];
        for (int j = 0; j < 3; j++) for (int i = 0; i < 4; i++) { il[8 * j + i] = st[0][4 * j + i]; il[8 * j + 4 + i] = st[1][4 * j + i]; }
        __m512i a0 = _mm512_load_si512(&il[0]), a1 = _mm512_load_si512(&il[8]), a2 = _mm512_load_si512(&il[16]);
        alignas(64) uint64_t o[24]; uint64_t w[4];
        switch (k->kind) {
        case M_SPMV: case M_SPMV_8: {
            __m512i r; if (k->kind == M_SPMV) Goldilocks::spmv_avx512_4x12(r, a0, a1, a2, co); else Goldilocks::spmv_avx512_4x12_8(r, a0, a1, a2, co);
            ST8(o, r); for (int s = 0; s < 2; s++) { spmv_ref(s, co, w); for (int i = 0; i < 4; i++) cmp("spmv512", s, i, o[4 * s + i], w[i]); }
            { __m512i t[3] = {a0, a1, a2}; int wch = (int)(c.v[1] % 3);
              if (k->kind == M_SPMV) Goldilocks::spmv_avx512_4x12(t[wch], t[0], t[1], t[2], co); else Goldilocks::spmv_avx512_4x12_8(t[wch], t[0], t[1], t[2], co);
              alignas(64) uint64_t q[8]; ST8(q, t[wch]); for (int i = 0; i < 8; i++) if (ok && q[i] != o[i]) { ok = false; why = "spmv512 with the result register being state register " + std::to_string(wch) + " differs from the call with a separate result register (lane " + std::to_string(i) + ")"; } }
        } break;
        case M_DOT: {
            E r[2]; Goldilocks::dot_avx512(r, a0, a1, a2, co);
            for (int s = 0; s < 2; s++) { spmv_ref(s, co, w); cmp("dot512", s, 0, r[s].fe, ref::add(ref::add(w[0], w[1]), ref::add(w[2], w[3]))); }
        } break;
        case M_MM4: case M_MM4_8: {
            __m512i r; if (k->kind == M_MM4) Goldilocks::mmult_avx512_4x12(r, a0, a1, a2, co); else Goldilocks::mmult_avx512_4x12_8(r, a0, a1, a2, co);
            ST8(o, r); for (int s = 0; s < 2; s++) { mm4_ref(s, co, w); for (int i = 0; i < 4; i++) cmp("mmult512_4x12", s, i, o[4 * s + i], w[i]); }
            { __m512i t[3] = {a0, a1, a2}; int wch = (int)(c.v[1] % 3);
              if (k->kind == M_MM4) Goldilocks::mmult_avx512_4x12(t[wch], t[0], t[1], t[2], co); else Goldilocks::mmult_avx512_4x12_8(t[wch], t[0], t[1], t[2], co);
              alignas(64) uint64_t q[8]; ST8(q, t[wch]); for (int i = 0; i < 8; i++) if (ok && q[i] != o[i]) { ok = false; why = "mmult512_4x12 with the result register being state register " + std::to_string(wch) + " differs from the call with a separate result register (lane " + std::to_string(i) + ")"; } }
        } break;
        default: {
            if (k->kind == M_MM) Goldilocks::mmult_avx512(a0, a1, a2, co); else Goldilocks::mmult_avx512_8(a0, a1, a2, co);
            ST8(&o[0], a0); ST8(&o[8], a1); ST8(&o[16], a2);
            for (int s = 0; s < 2; s++) for (int blk = 0; blk < 3; blk++) { mm4_ref(s, co + 48 * blk, w); for (int i = 0; i < 4; i++) cmp("mmult512", s, 4 * blk + i, o[8 * blk + 4 * s + i], w[i]); }
        } break;
        }
    }
#endif
    if (!ok) return ctx.fail(why);
    return true;
}
static std::string desc_mat(const Case &c)
{
    const MKern *k = mkern_by_name(c.prop);
    std::string s = c.prop;
    if (!k) return s;
    s += " state=";
    for (int i = 0; i < 12 * k->S; i++) s += (i ? "," : "") + hx(c.v[i]);
    s += " coef=";
    for (int i = 0; i < k->ncoef; i++) s += (i ? "," : "") + hx(k->eight ? (c.v[12 * k->S + i] & 0xFF) : c.v[12 * k->S + i]);
    return s;
}
// (state element, coefficient) pairs: independent, products landing (as integers) in [p, 2^64) so the raw lane product is non-canonical,
// products next to 2^64-1, residue-targeted pairs
static rc::Gen<g::P2> pair_prod_band()
{
    return rc::gen::apply([](uint64_t t, uint64_t a, bool swap) -> g::P2 {
        if (a < 2) a = 3;
        uint64_t b = t / a;
        return swap ? g::P2{b, a} : g::P2{a, b};
    }, rc::gen::weightedOneOf<uint64_t>({{2, g::range(PR, UINT64_MAX)}, {2, g::delta(UINT64_MAX - 8, 8)}, {1, g::delta(PR + 8, 8)}}),
       rc::gen::weightedOneOf<uint64_t>({{2, g::range(2, 1 << 16)}, {1, g::range(2, 0xFFFFFFFFull)}, {1, g::elem({3, 5, 15, 17, 255, 257, 65535, 65537})}}), rc::gen::arbitrary<bool>());
}
static rc::Gen<std::vector<uint64_t>> gen_mat(const MKern *k)
{
    int S = k->S, nc = k->ncoef;
    // per (state element t, row r) pair generator; coefficient index 12*r + t is paired with state element t (both states share coefficients)
    auto pg = rc::gen::weightedOneOf<g::P2>({{3, g::pair_indep()}, {4, pair_prod_band()}, {2, g::pair_mul_residue()}, {1, g::pair_hilo()}});
    const bool eight = k->eight;
    return rc::gen::apply([S, nc, eight](const std::vector<g::P2> &ps, const std::vector<uint64_t> &extra, uint64_t mode) {
        std::vector<uint64_t> v(12 * S + nc);
        if (eight && (mode & 0x600)) {
            // 8-bit kernels: coefficients m in [1,255] and state elements x = floor((k*2^64 - d)/m), k <= m: the 72-bit product x*m has a
            // high part k-1 (up to 254: sums of three high parts exceed 255) and a low word within d of 2^64 (non-canonical low parts,
            // several in the same output lane); the remaining rows get independent 8-bit coefficients
            int rows = nc / 12, row = (int)((mode >> 12) % rows);
            for (int i = 0; i < nc; i++) v[12 * S + i] = extra[i % extra.size()] & 0xFF;
            for (int t = 0; t < 12; t++) {
                uint64_t m = 1 + (ps[t].second % 255), kk = (mode & 0x200) ? m : 1 + (ps[t].first % m), d = 1 + (extra[t] % ((mode & 0x400) ? 41 : 0xFFFFFFFFull));
                unsigned __int128 T = ((unsigned __int128)kk << 64) - d;
                uint64_t x = (uint64_t)(T / m);
                if ((mode >> 48) % 3 == 0) { // alternatively: the carry inside the 72-bit product (see gen_lane)
                    uint64_t j = 1 + (ps[t].first % m);
                    x = (((uint64_t)((((unsigned __int128)j << 32) - 1) / m) & 0xFFFFFFFFull) << 32) | (0xFFFFFFFFull - (extra[t] % 3));
                }
                bool crafted = ((mode >> (16 + t)) & 1) || (mode & 0x800);
                // sparse variant: only a few (1..4) crafted positions, everything else zero -- intermediate sums then KEEP the raw
                // (non-canonical) representation of a single product all the way to the last adder of the kernel
                const bool sparse = (mode >> 52) & 1;
                if (sparse) { int kcr = 1 + (int)((mode >> 53) % 4); crafted = false; for (int q = 0; q < kcr; q++) if ((int)((mode >> (16 + 4 * q)) % 12) == t) crafted = true; }
                v[t] = crafted ? x : (sparse ? 0 : extra[20 + t]);
                if (S == 2) v[12 + t] = ((mode >> (32 + t)) & 1) ? x : (sparse ? 0 : extra[40 + t]);
                if (crafted || S == 2) v[12 * S + 12 * row + t] = m;
            }
            return v;
        }
        if (!eight && (mode >> 60) % 5 == 1) {
            // coefficient-width bands: every coefficient of the array below 2^w (top-heavy inside the band) against large state elements --
            // the shapes for which a kernel specialised for "short" coefficients is tempting (w around 8, 16, 31, 32, 33)
            static const int W[] = {8, 9, 16, 24, 30, 31, 32, 32, 33, 40, 48, 63};
            const int w = W[(mode >> 8) % 12];
            for (int i = 0; i < nc; i++) { uint64_t e = extra[i % extra.size()], top = ((uint64_t)1 << w) - 1;
                v[12 * S + i] = (e & 3) == 0 ? top - ((e >> 8) % 16) : (e & 3) == 1 ? (((uint64_t)1 << (w - 1)) | ((e >> 8) & (top >> 1))) : top - ((e >> 8) & (top >> 3)); }
            for (int s = 0; s < S; s++) for (int t = 0; t < 12; t++) { uint64_t e = extra[(40 + 12 * s + t) % extra.size()], x = ps[t].first;
                v[12 * s + t] = (e & 3) == 0 ? (0xFFFFFFFF00000000ull | (e >> 32)) : (e & 3) == 1 ? PR - 1 - ((e >> 8) % 1000) : (e & 3) == 2 ? (x | 0xC000000000000000ull) : x; }
            return v;
        }
        // mode: which row's coefficients are solved against the state (others independent draws from extra)
        int rows = nc / 12;
        for (int t = 0; t < 12; t++) v[t] = ps[t].first;
        for (int t = 0; t < 12 && S == 2; t++) v[12 + t] = (mode & 1) ? ps[t].first : extra[t];
        size_t e = 12;
        for (int r = 0; r < rows; r++)
            for (int t = 0; t < 12; t++) {
                bool solved = ((mode >> 1) % rows) == (uint64_t)r || (mode & 0x100);
                if (solved) {
                    // same product target for this state element: coefficient from the solved pair
                    v[12 * S + 12 * r + t] = ps[t].second;
                } else v[12 * S + 12 * r + t] = extra[e++ % extra.size()];
            }
        if (!eight && nc == 12 && (mode >> 58) % 3 == 0) {
            // lane-result targeting (dot products / one sparse row): one product per lane, its residue chosen from boundary values, so the four
            // lane results are e.g. (p-1, p-1, 2^32+d, 0) and the horizontal sum crosses 2^64 / p in every way
            static const uint64_t R[] = {PR - 1, PR - 2, 0x100000000ull, 0xFFFFFFFFull, 0, 1, 0x80000000ull, PR - 0xFFFFFFFFull, 0x8000000000000000ull, 0x7FFFFFFFFFFFFFFFull, PR - 0x100000000ull, 5};
            for (int t = 0; t < 12; t++) { v[t] = 0; if (S == 2) v[12 + t] = 0; v[12 * S + t] = extra[t]; }
            for (int i = 0; i < 4; i++) {
                int blk = (int)((mode >> (4 * i)) % 3), t = 4 * blk + i;
                uint64_t x = extra[30 + i] % PR; if (x == 0) x = 3;
                uint64_t r = (R[(mode >> (16 + 4 * i)) % 12] + (extra[40 + i] % 7) + PR - 3) % PR;
                v[t] = x; if (S == 2) v[12 + t] = (mode & (1ull << (40 + i))) ? x : extra[50 + i];
                v[12 * S + t] = ref::mul(r, ref::inv(x));
            }
            return v;
        }
        if ((mode >> 52) % 5 == 0) {
            // sparse variant: keep 1..4 state elements (with their solved coefficients), zero the rest
            int kcr = 1 + (int)((mode >> 55) % 4); bool keep[12] = {false};
            for (int q = 0; q < kcr; q++) keep[(mode >> (16 + 4 * q)) % 12] = true;
            for (int t = 0; t < 12; t++) if (!keep[t]) { v[t] = 0; if (S == 2) v[12 + t] = (mode & 2) ? 0 : v[12 + t]; }
        }
        return v;
    }, rc::gen::container<std::vector<g::P2>>(12, pg), rc::gen::container<std::vector<uint64_t>>(12 + 144, g::fe()), g::uni64());
}

int main(int argc, char **argv)
{
    std::vector<pbt::PropDef> props;
    for (int i = 0; i < NK; i++) {
        const Kern *k = &KERNS[i];
        props.push_back({k->name, [k] { return gen_lane(k); }, body_lane, 1.0, false, desc_lane, 100});
    }
    for (int i = 0; i < NMK; i++) {
        const MKern *k = &MKERNS[i];
        props.push_back({k->name, [k] { return gen_mat(k); }, body_mat, k->ncoef == 144 ? 0.4 : 1.0, false, desc_mat, 100});
    }
    for (auto &p : props) p.mt_ok = true;
    return pbt::harness_main(argc, argv, "h_lanes", props);
}
