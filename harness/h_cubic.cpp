// C09 — scalar cubic-extension arithmetic is exact in F_p[x]/(x^3 - x - 1).
// Oracle: schoolbook polynomial product reduced with x^3 = x + 1 in u128 (engine/ref.hpp).
#include "../engine/pbt.hpp"
#include "../engine/gen.hpp"
#include "goldilocks_base_field.hpp"
#include "goldilocks_cubic_extension.hpp"
#include <gmpxx.h>
#include <omp.h>

using pbt::Case; using pbt::Ctx;
typedef Goldilocks::Element E;
typedef Goldilocks3::Element E3;
static const uint64_t PR = ref::PR;
static std::string hx(uint64_t x) { char b[32]; snprintf(b, sizeof b, "0x%llx", (unsigned long long)x); return b; }
static std::string s3(const ref::E3 &a) { return "(" + hx(a[0]) + "," + hx(a[1]) + "," + hx(a[2]) + ")"; }
static ref::E3 rd(const E3 &x) { return {x[0].fe % PR, x[1].fe % PR, x[2].fe % PR}; }
static void wr(E3 &x, const ref::E3 &a) { x[0].fe = a[0]; x[1].fe = a[1]; x[2].fe = a[2]; }

// ---- calls made DURING STATIC INITIALISATION (this translation unit is first on the link line) ----
struct EarlyProbe3 {
    bool one_is_one, zero_is_one, oneish_is_one; uint64_t prod[3], invp[3]; bool skipped = false;
    EarlyProbe3() {
        if (getenv("PBT_NO_EARLY")) { skipped = true; return; }
        E3 a = {{0xFFFFFFFF00000005ull}, {7}, {0xFFFFFFFFFFFFFFFFull}}, b = {{3}, {0xFFFFFFFF00000000ull}, {11}}, o = {{1}, {0}, {0}}, z = {{0}, {0}, {0}}, q = {{PR + 1}, {PR}, {0}}, r, iv, pr;
        one_is_one = Goldilocks3::isOne(o); zero_is_one = Goldilocks3::isOne(z); oneish_is_one = Goldilocks3::isOne(q);
        Goldilocks3::mul(r, a, b); for (int i = 0; i < 3; i++) prod[i] = r[i].fe % PR;
        Goldilocks3::inv(iv, a); Goldilocks3::mul(pr, iv, a); for (int i = 0; i < 3; i++) invp[i] = pr[i].fe % PR;
        // (Goldilocks3::one() / zero() are not probed: the constants ONE / ZERO are objects of the library's own translation unit and the property
        // does not speak about them; only the operations it lists are checked at this point of the program)
    }
};
static EarlyProbe3 g_early3;
static bool body_static_init(const Case &, Ctx &ctx)
{
    if (g_early3.skipped) { ctx.cls("context:static-initialisation-probe-switched-off"); return true; }
    ctx.nt("context:called-during-static-initialisation");
    if (!g_early3.one_is_one || g_early3.zero_is_one || !g_early3.oneish_is_one) return ctx.fail("isOne called during static initialisation (before main): isOne((1,0,0)) = " + std::to_string(g_early3.one_is_one) + ", isOne((0,0,0)) = " + std::to_string(g_early3.zero_is_one) + ", isOne((p+1,p,0)) = " + std::to_string(g_early3.oneish_is_one));
    ref::E3 a = {0xFFFFFFFF00000005ull, 7, 0xFFFFFFFFFFFFFFFFull}, b = {3, 0xFFFFFFFF00000000ull, 11}, w = ref::mul3(a, b);
    for (int i = 0; i < 3; i++) if (g_early3.prod[i] != w[i]) return ctx.fail("mul called during static initialisation returned a wrong coefficient " + std::to_string(i));
    if (g_early3.invp[0] != 1 || g_early3.invp[1] != 0 || g_early3.invp[2] != 0) return ctx.fail("inv called during static initialisation: a*inv(a) is not one");
    return true;
}
enum Op { ADD_EE, ADD_EB, ADD_BE, ADD_EU, SUB_EE, SUB_BE, SUB_EB, SUB_EU, NEG, MUL_EE, MUL_EE_PTR, MUL_EB, MUL_BE, MUL_EU, SQUARE, DIV_B, INV, INV_PTR, NOPS };
static const char *OPN[] = {"add(E,E)", "add(E,base)", "add(base,E)", "add(E,u64)", "sub(E,E)", "sub(base,E)", "sub(E,base)", "sub(E,u64)", "neg", "mul(E,E)", "mul(E*,E*)", "mul(E,base)", "mul(base,E)", "mul(E,u64)", "square", "div(E,base)", "inv", "inv(ptr)"};

// payload: [op, alias, a0,a1,a2, b0,b1,b2]   alias: 0 none, 1 result==a, 2 result==b (extension b only), 3 a==b (same object), 4 all the same
static bool body_op(const Case &c, Ctx &ctx)
{
    int op = (int)(c.v[0] % NOPS), alias = (int)(c.v[1] % 5);
    ref::E3 a = {c.v[2], c.v[3], c.v[4]}, b = {c.v[5], c.v[6], c.v[7]};
    bool b_is_ext = (op == ADD_EE || op == SUB_EE || op == MUL_EE || op == MUL_EE_PTR);
    bool unary = (op == NEG || op == SQUARE || op == INV || op == INV_PTR);
    if (!b_is_ext && (alias == 2 || alias == 3)) alias = 0;
    if (!b_is_ext && alias == 4) alias = 1;
    if (unary && alias > 1) alias = 1;
    if (b_is_ext && alias >= 3) b = a;
    if ((op == INV || op == INV_PTR) && ref::iszero3(a)) a[1] = 1;
    if (op == DIV_B && b[0] % PR == 0) b[0] = 3;
    bool nc = false; for (int i = 0; i < 3; i++) if (a[i] >= PR || (b[i] >= PR && (b_is_ext || i == 0))) nc = true;
    if (nc) ctx.nt("ext:non-canonical-coefficient");
    if (alias) ctx.nt(alias == 1 ? "ext:result==a" : alias == 2 ? "ext:result==b" : alias == 3 ? "ext:a==b" : "ext:all-same");
    if (!nc && !alias) ctx.cls("ext:plain");
    ctx.cls(OPN[op]);
    ref::E3 want;
    ref::E3 bb = {b[0], 0, 0}; // base / integer operand embedded
    switch (op) {
    case ADD_EE: want = ref::add3(a, b); break;
    case ADD_EB: case ADD_BE: case ADD_EU: want = ref::add3(a, bb); break;
    case SUB_EE: want = ref::sub3(a, b); break;
    case SUB_BE: want = ref::sub3(bb, a); break;
    case SUB_EB: case SUB_EU: want = ref::sub3(a, bb); break;
    case NEG: want = ref::neg3(a); break;
    case MUL_EE: case MUL_EE_PTR: want = ref::mul3(a, b); break;
    case MUL_EB: case MUL_BE: case MUL_EU: want = ref::scale3(a, b[0]); break;
    case SQUARE: want = ref::mul3(a, a); break;
    case DIV_B: want = ref::scale3(a, ref::inv(b[0])); break;
    default: want = {0, 0, 0}; break; // inverse: checked by multiplication
    }
    E3 A, B, R; wr(A, a); wr(B, b); wr(R, {0x1111, 0x2222, 0x3333});
    E3 &ra = A; E3 &rb = (b_is_ext && alias >= 3) ? A : B;
    E3 &res = (alias == 1 || alias == 4) ? A : (alias == 2 ? B : R);
    E bbase = {b[0]}; uint64_t bu = b[0];
    switch (op) {
    case ADD_EE: Goldilocks3::add(res, ra, rb); break;
    case ADD_EB: Goldilocks3::add(res, ra, bbase); break;
    case ADD_BE: Goldilocks3::add(res, bbase, ra); break;
    case ADD_EU: Goldilocks3::add(res, ra, bu); break;
    case SUB_EE: Goldilocks3::sub(res, ra, rb); break;
    case SUB_BE: Goldilocks3::sub(res, bbase, ra); break;
    case SUB_EB: Goldilocks3::sub(res, ra, bbase); break;
    case SUB_EU: Goldilocks3::sub(res, ra, bu); break;
    case NEG: Goldilocks3::neg(res, ra); break;
    case MUL_EE: Goldilocks3::mul(res, ra, rb); break;
    case MUL_EE_PTR: Goldilocks3::mul(&res, &ra, &rb); break;
    case MUL_EB: Goldilocks3::mul(res, ra, bbase); break;
    case MUL_BE: Goldilocks3::mul(res, bbase, ra); break;
    case MUL_EU: Goldilocks3::mul(res, ra, bu); break;
    case SQUARE: Goldilocks3::square(res, ra); break;
    case DIV_B: Goldilocks3::div(res, ra, bbase); break;
    case INV: Goldilocks3::inv(res, ra); break;
    case INV_PTR: Goldilocks3::inv(&res, &ra); break;
    }
    ref::E3 got = rd(res);
    if (op == INV || op == INV_PTR) {
        ref::E3 prod = ref::mul3(got, a);
        if (!ref::isone3(prod)) return ctx.fail(std::string(OPN[op]) + " a=" + s3(a) + " -> " + s3(got) + ": a*inv(a) = " + s3(prod));
        // a second inversion straight afterwards of an element that differs from the first in exactly one coefficient
        ref::E3 a2 = a; int k = (int)(c.v[1] / 5 % 3); a2[k] = b[k];
        if (!ref::iszero3(a2) && a2 != a) {
            ctx.cls("inv:second-call-one-coefficient-changed");
            E3 A2, R2; wr(A2, a2); wr(R2, {7, 8, 9});
            if (op == INV) Goldilocks3::inv(R2, A2); else Goldilocks3::inv(&R2, &A2);
            ref::E3 p2 = ref::mul3(rd(R2), a2);
            if (!ref::isone3(p2)) return ctx.fail(std::string(OPN[op]) + " a=" + s3(a2) + " called straight after the inversion of " + s3(a) + " -> " + s3(rd(R2)) + ": a*inv(a) = " + s3(p2));
            E3 A3, R3; wr(A3, a); wr(R3, {7, 8, 9}); Goldilocks3::inv(R3, A3);
            if (rd(R3) != got) return ctx.fail(std::string(OPN[op]) + " a=" + s3(a) + " differs when repeated after the inversion of " + s3(a2));
        }
        return true;
    }
    if (got != want) return ctx.fail(std::string(OPN[op]) + " alias=" + std::to_string(alias) + " a=" + s3(a) + " b=" + s3(b) + ": got " + s3(got) + " want " + s3(want));
    uint64_t u[3]; Goldilocks3::toU64(u, res);
    if (u[0] != want[0] || u[1] != want[1] || u[2] != want[2]) return ctx.fail("Goldilocks3::toU64 is not canonical");
    return true;
}
static std::string desc_op(const Case &c)
{
    return c.prop + " " + OPN[c.v[0] % NOPS] + " alias=" + std::to_string(c.v[1] % 5) + " a=" + s3({c.v[2], c.v[3], c.v[4]}) + " b=" + s3({c.v[5], c.v[6], c.v[7]});
}
// payload: [neg, alias, a0,a1,a2, limbs...]: mulScalar by a decimal string of any sign and magnitude
static bool body_mulscalar(const Case &c, Ctx &ctx)
{
    mpz_class z = 0;
    for (size_t i = c.v.size(); i-- > 5;) { z <<= 64; mpz_class t; mpz_import(t.get_mpz_t(), 1, 1, 8, 0, 0, &c.v[i]); z += t; }
    if (c.v[0] & 1) z = -z;
    uint64_t pr = PR; mpz_class P; mpz_import(P.get_mpz_t(), 1, 1, 8, 0, 0, &pr);
    mpz_class m; mpz_fdiv_r(m.get_mpz_t(), z.get_mpz_t(), P.get_mpz_t());
    uint64_t s = 0; size_t cnt = 0; mpz_export(&s, &cnt, 1, 8, 0, 0, m.get_mpz_t()); if (!cnt) s = 0;
    if (z < -P) ctx.nt("mulScalar:string-below--p"); else if (z < 0) ctx.nt("mulScalar:negative-string"); else if (z >= P) ctx.nt("mulScalar:string>=p"); else ctx.nt("mulScalar:string-in[0,p)");
    ref::E3 a = {c.v[2], c.v[3], c.v[4]}, want = ref::scale3(a, s);
    E3 A, R; wr(A, a); wr(R, {1, 2, 3});
    std::string str = z.get_str(10);
    bool alias = c.v[1] & 1;
    if (alias) Goldilocks3::mulScalar(A, A, str); else Goldilocks3::mulScalar(R, A, str);
    ref::E3 got = rd(alias ? A : R);
    if (got != want) return ctx.fail("mulScalar(a=" + s3(a) + ", \"" + str + "\") got " + s3(got) + " want " + s3(want));
    return true;
}
static std::string desc_ms(const Case &c) { return c.prop + " a=" + s3({c.v[2], c.v[3], c.v[4]}) + " neg=" + std::to_string(c.v[0] & 1) + " limbs=" + std::to_string(c.v.size() - 5); }
// payload: [len, mode, elements 3*len...]
static bool body_batchinv(const Case &c, Ctx &ctx)
{
    uint64_t n = c.v[0];
    if (n == 1) ctx.nt("batchInverse:len=1"); else if (n <= 4) ctx.nt("batchInverse:len2..4"); else if (n <= 64) ctx.nt("batchInverse:len5..64"); else if (n <= 2000) ctx.nt("batchInverse:len>64"); else ctx.nt(n & 1 ? "batchInverse:len>4000-odd" : "batchInverse:len>4000-even");
    std::vector<ref::E3> src(n);
    for (uint64_t i = 0; i < n; i++) {
        for (int k = 0; k < 3; k++) src[i][k] = 2 + 3 * i + k < c.v.size() ? c.v[2 + 3 * i + k] : pbt::mix(c.v[1], 3 * i + k);
        if (ref::iszero3(src[i])) src[i][(i % 3)] = 1 + i; // non-zero elements only (property domain)
    }
    E3 *S = (E3 *)malloc(n * sizeof(E3)), *R = (E3 *)malloc(n * sizeof(E3));
    for (uint64_t i = 0; i < n; i++) wr(S[i], src[i]);
    bool alias = c.v[1] & 1;
    // bit 1: the call is made by one member of an enclosing parallel region (whatever parallelism the routine uses gets a team of one)
    if (c.v[1] & 2) { ctx.nt("batchInverse:called-inside-a-parallel-region");
#pragma omp parallel num_threads(2)
        { if (omp_get_thread_num() == 0) Goldilocks3::batchInverse(alias ? S : R, S, n); }
    } else
    Goldilocks3::batchInverse(alias ? S : R, S, n);
    bool ok = true; std::string why;
    for (uint64_t i = 0; i < n && ok; i++) {
        ref::E3 got = rd((alias ? S : R)[i]);
        ref::E3 prod = ref::mul3(got, src[i]);
        if (!ref::isone3(prod)) { ok = false; why = "batchInverse len=" + std::to_string(n) + " element " + std::to_string(i) + ": src*res = " + s3(prod) + " (src " + s3(src[i]) + ", res " + s3(got) + ")"; }
        // element-wise inversion must agree
        E3 x, y; wr(x, src[i]); Goldilocks3::inv(y, x);
        if (ok && rd(y) != got) { ok = false; why = "batchInverse differs from element-wise inv at " + std::to_string(i); }
    }
    if (ok && !alias) for (uint64_t i = 0; i < n; i++) if (S[i][0].fe != src[i][0] || S[i][1].fe != src[i][1] || S[i][2].fe != src[i][2]) { ok = false; why = "batchInverse modified its source"; }
    free(S); free(R);
    if (!ok) return ctx.fail(why);
    return true;
}
static std::string desc_bi(const Case &c) { return c.prop + " len=" + std::to_string(c.v[0]) + " alias=" + std::to_string(c.v[1] & 1) + " seed=" + hx(c.v[1]); }
// payload [a0,a1,a2]: isOne and the small helpers
static bool body_isone(const Case &c, Ctx &ctx)
{
    ref::E3 a = {c.v[0], c.v[1], c.v[2]};
    bool want = ref::isone3(a);
    if (want) ctx.nt("isOne:true-case"); else if (a[0] % PR == 1) ctx.nt("isOne:first-coefficient-one-but-not-one"); else ctx.nt("isOne:other");
    E3 A; wr(A, a);
    if (Goldilocks3::isOne(A) != want) return ctx.fail("isOne" + s3(a) + " = " + std::to_string(!want) + ", the element is " + (want ? "" : "not ") + "(1,0,0)");
    E3 Z, O, Cc; Goldilocks3::zero(Z); Goldilocks3::one(O); Goldilocks3::copy(Cc, A);
    if (!ref::iszero3(rd(Z)) || !ref::isone3(rd(O)) || rd(Cc) != ref::can3(a)) return ctx.fail("zero/one/copy wrong");
    if (!ref::iszero3(rd(Goldilocks3::zero())) || !ref::isone3(rd(Goldilocks3::one()))) return ctx.fail("zero()/one() constants wrong");
    E3 D; Goldilocks3::copy(&D, &A); if (rd(D) != ref::can3(a)) return ctx.fail("copy(ptr) wrong");
    return true;
}
static std::string desc_io(const Case &c) { return c.prop + " a=" + s3({c.v[0], c.v[1], c.v[2]}); }

static rc::Gen<std::vector<uint64_t>> gen_coeffs(int n)
{
    // coefficient vectors: independent boundary classes, or sparse (many zero / one coefficients), or all equal
    return rc::gen::weightedOneOf<std::vector<uint64_t>>({{6, g::fe_vec(n)},
        {2, rc::gen::apply([n](std::vector<uint64_t> v, uint64_t mask) { for (int i = 0; i < n; i++) if ((mask >> i) & 1) v[i] = (mask >> (8 + i)) & 1 ? PR : 0; return v; }, g::fe_vec(n), g::uni64())},
        {1, rc::gen::map(g::fe(), [n](uint64_t x) { return std::vector<uint64_t>(n, x); })},
        // relations inside each coefficient triple: sums that vanish although no coefficient does, equal coefficients, embedded base elements in both representations
        {2, rc::gen::apply([n](std::vector<uint64_t> v, uint64_t m) { for (int k = 0; k + 2 < n; k += 3) { uint64_t *q = &v[k];
                switch ((m >> (4 * (k / 3))) % 8) { case 0: q[2] = ref::sub(0, q[1]); break; case 1: q[1] = ref::sub(0, q[0]); break; case 2: q[2] = ref::sub(0, q[0]); break; case 3: q[2] = q[1]; break;
                    case 4: q[2] = ref::sub(0, ref::add(q[0], q[1])); break; case 5: q[1] = PR; q[2] = 0; break; case 6: q[2] = ref::sub(0, q[1]); if (q[2] < 0xFFFFFFFFull) q[2] += PR; break; default: q[0] = 0; q[1] = ref::sub(0, q[2]); break; } }
              return v; }, g::fe_vec(n), g::uni64())}});
}

int main(int argc, char **argv)
{
    std::vector<pbt::PropDef> props = {
        {"c09.op", [] { return rc::gen::apply([](int op, int al, std::vector<uint64_t> co) { std::vector<uint64_t> v{(uint64_t)op, (uint64_t)al}; v.insert(v.end(), co.begin(), co.end()); return v; },
                                               g::irange(0, NOPS - 1), rc::gen::apply([](int al, int k) { return al + 5 * k; }, rc::gen::weightedElement<int>({{5, 0}, {2, 1}, {1, 2}, {1, 3}, {1, 4}}), g::irange(0, 2)), gen_coeffs(6)); }, body_op, 8, false, desc_op, 100},
        {"c09.mulScalar", [] { return rc::gen::exec([] {
                                   std::vector<uint64_t> v{(uint64_t)*g::irange(0, 1), (uint64_t)*g::irange(0, 1)};
                                   auto co = *g::fe_vec(3); v.insert(v.end(), co.begin(), co.end());
                                   int nl = *rc::gen::weightedElement<int>({{4, 1}, {2, 2}, {1, 3}, {1, 0}});
                                   for (int i = 0; i < nl; i++) v.push_back(*g::fe());
                                   return v; }); }, body_mulscalar, 1, false, desc_ms, 100},
        {"c09.batchInverse", [] { return rc::gen::exec([] {
                                      uint64_t n = *rc::gen::weightedOneOf<uint64_t>({{20, g::range(1, 4)}, {27, g::range(1, 64)}, {7, g::range(65, 2000)}, {1, g::elem({4095, 4097, 16383, 16384, 16385, 16387, 30001, 65536, 65537})}});
                                      std::vector<uint64_t> v{n, *g::uni64()}; if (*g::irange(0, 3)) v[1] &= ~(uint64_t)2; // (a quarter of the calls from inside a parallel region)
                                      uint64_t ex = std::min<uint64_t>(n, 8);
                                      auto co = *gen_coeffs((int)(3 * ex)); v.insert(v.end(), co.begin(), co.end());
                                      return v; }); }, body_batchinv, 1, false, desc_bi, 100},
        {"c09.static_init", [] { return rc::gen::just(std::vector<uint64_t>{0}); }, body_static_init, 0.0001, false, nullptr, 100},
        {"c09.isOne", [] { return rc::gen::weightedOneOf<std::vector<uint64_t>>({{3, g::fe_vec(3)},
                               {3, rc::gen::apply([](uint64_t y, uint64_t z, int f) { return std::vector<uint64_t>{(f & 1) ? PR + 1 : 1, (f & 2) ? y : ((f & 8) ? PR : 0), (f & 4) ? z : ((f & 16) ? PR : 0)}; }, g::fe(), g::fe(), g::irange(0, 31))},
                               {1, rc::gen::elementOf(std::vector<std::vector<uint64_t>>{{1, 0, 0}, {PR + 1, PR, PR}, {0, 0, 0}, {1, 5, 7}, {1, 1, 1}, {1, 0, 1}, {1, 1, 0}, {0, 1, 0}, {PR, PR, PR}, {2, 0, 0}})}}); }, body_isone, 1, false, desc_io, 100},
    };
    for (auto &p : props) if (p.name != "c09.static_init") p.mt_ok = true;
    return pbt::harness_main(argc, argv, "h_cubic", props);
}
