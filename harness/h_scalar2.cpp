// C10 — inv / div / exp are exact, total on non-zero, refuse zero.
// C15 — conversions are total, canonical, round-trip; predicates ignore representation.
// Oracles: u128 reference (engine/ref.hpp) and GMP floor-mod of the mathematical integer.
#include "../engine/pbt.hpp"
#include "../engine/gen.hpp"
#include "goldilocks_base_field.hpp"
#include <gmpxx.h>
#include <climits>

using pbt::Case; using pbt::Ctx;
typedef Goldilocks::Element E;
typedef unsigned __int128 u128;
static const uint64_t PR = ref::PR;
static std::string hx(uint64_t x) { char b[32]; snprintf(b, sizeof b, "0x%016llx", (unsigned long long)x); return b; }
static uint64_t other_rep(uint64_t a) { return a >= PR ? a - PR : (a < 0xFFFFFFFFull ? a + PR : a); }

// ---- calls made DURING STATIC INITIALISATION (this translation unit is first on the link line: its initialisers run before the library's) ----
static const uint64_t EARLY_V[] = {5, 0, 1, PR - 1, PR, PR + 1, 0x80000000ull, 0x7FFFFFFFull, (PR - 1) / 2, (PR - 1) / 2 + 1, PR - 0x80000000ull, PR - 0x80000001ull, 0xFFFFFFFFFFFFFFFFull, 1234567};
struct EarlyProbe {
    int64_t s64[14]; int32_t s32[14]; bool ok32[14], one[14], zero[14], neg1[14], eq[14]; uint64_t inv[14], fs64, fs32, fstr, fbig, dv, ex; std::string str[14];
    bool skipped = false;
    EarlyProbe() {
        if (getenv("PBT_NO_EARLY")) { skipped = true; return; } // (cold-start jobs and the re-executed refusal child: nothing may run before the case)
        for (int i = 0; i < 14; i++) { E e = {EARLY_V[i]}; s64[i] = Goldilocks::toS64(e); ok32[i] = Goldilocks::toS32(s32[i], e); one[i] = Goldilocks::isOne(e); zero[i] = Goldilocks::isZero(e); neg1[i] = Goldilocks::isNegone(e);
            E o = {EARLY_V[i] >= PR ? EARLY_V[i] - PR : (EARLY_V[i] < 0xFFFFFFFFull ? EARLY_V[i] + PR : EARLY_V[i])}; eq[i] = Goldilocks::equal(e, o); str[i] = Goldilocks::toString(e, 10);
            inv[i] = EARLY_V[i] % PR ? Goldilocks::toU64(Goldilocks::inv(e)) : 0; }
        fs64 = Goldilocks::toU64(Goldilocks::fromS64(-7)); fs32 = Goldilocks::toU64(Goldilocks::fromS32(INT32_MIN)); fstr = Goldilocks::toU64(Goldilocks::fromString("-18446744069414584323", 10));
        mpz_class z("36893488138829168642"); fbig = Goldilocks::toU64(Goldilocks::fromScalar(z));
        E a = {0xFFFFFFFFFFFFFFFFull}, b = {PR + 2}; dv = Goldilocks::toU64(a / b); ex = Goldilocks::toU64(Goldilocks::exp(b, 0xFFFFFFFF00000000ull));
    }
};
static EarlyProbe g_early;
static uint64_t early_floormod(const char *dec) { mpz_class z(dec), m, P("18446744069414584321"); mpz_fdiv_r(m.get_mpz_t(), z.get_mpz_t(), P.get_mpz_t()); uint64_t out = 0; size_t cnt = 0; mpz_export(&out, &cnt, 1, 8, 0, 0, m.get_mpz_t()); return cnt ? out : 0; }
static bool body_static_init_c15(const Case &, Ctx &ctx)
{
    if (g_early.skipped) { ctx.cls("context:static-initialisation-probe-switched-off"); return true; }
    ctx.nt("context:called-during-static-initialisation");
    for (int i = 0; i < 14; i++) {
        uint64_t v = EARLY_V[i] % PR; std::string at = " of " + hx(EARLY_V[i]) + " called during static initialisation (before main)";
        int64_t w64 = v <= (PR - 1) / 2 ? (int64_t)v : -(int64_t)(PR - v);
        if (g_early.s64[i] != w64) return ctx.fail("toS64" + at + " returned " + std::to_string(g_early.s64[i]) + ", want " + std::to_string(w64));
        bool in32 = w64 >= INT32_MIN && w64 <= INT32_MAX;
        if (g_early.ok32[i] != in32) return ctx.fail("toS32" + at + " reported " + (g_early.ok32[i] ? "success" : "failure"));
        if (in32 && g_early.s32[i] != (int32_t)w64) return ctx.fail("toS32" + at + " returned " + std::to_string(g_early.s32[i]) + ", want " + std::to_string(w64));
        if (g_early.one[i] != (v == 1) || g_early.zero[i] != (v == 0) || g_early.neg1[i] != (v == PR - 1) || !g_early.eq[i]) return ctx.fail("a predicate (isOne / isZero / isNegone / equal)" + at + " is wrong");
        if (g_early.str[i] != std::to_string((unsigned long long)v)) return ctx.fail("toString" + at + " returned '" + g_early.str[i] + "'");
    }
    if (g_early.fs64 != PR - 7 || g_early.fs32 != PR - 0x80000000ull) return ctx.fail("fromS64 / fromS32 called during static initialisation returned a wrong residue");
    if (g_early.fstr != early_floormod("-18446744069414584323") || g_early.fbig != early_floormod("36893488138829168642")) return ctx.fail("fromString / fromScalar called during static initialisation returned a wrong residue");
    return true;
}
static bool body_static_init_c10(const Case &, Ctx &ctx)
{
    if (g_early.skipped) { ctx.cls("context:static-initialisation-probe-switched-off"); return true; }
    ctx.nt("context:called-during-static-initialisation");
    for (int i = 0; i < 14; i++) if (EARLY_V[i] % PR && ref::mul(g_early.inv[i], EARLY_V[i]) != 1) return ctx.fail("inv(" + hx(EARLY_V[i]) + ") called during static initialisation (before main) returned " + hx(g_early.inv[i]));
    if (g_early.dv != ref::mul(0xFFFFFFFFFFFFFFFFull % PR, ref::inv(2))) return ctx.fail("div called during static initialisation returned " + hx(g_early.dv));
    if (g_early.ex != ref::pw(2, 0xFFFFFFFF00000000ull)) return ctx.fail("exp called during static initialisation returned " + hx(g_early.ex));
    return true;
}

// ---- C10 ------------------------------------------------------------------------------------
// payload [a]
static bool body_inv(const Case &c, Ctx &ctx)
{
    uint64_t a = c.v[0];
    if (a % PR == 0) a = 1; // (zero has its own property below)
    if (a >= PR) ctx.nt("inv:non-canonical-operand"); else if (a < 4 || a >= PR - 4) ctx.nt("inv:edge"); else ctx.nt("inv:generic");
    // classify Euclid chain length (model, not oracle)
    { uint64_t r0 = PR, r1 = a % PR; int steps = 0; uint64_t maxq = 0; while (r1) { uint64_t q = r0 / r1, t = r0 % r1; if (q > maxq) maxq = q; r0 = r1; r1 = t; steps++; }
      if (steps >= 60) ctx.cls("inv:long-euclid-chain(>=60)"); if (steps <= 3) ctx.cls("inv:short-euclid-chain(<=3)"); if (maxq >= (1ull << 32)) ctx.cls("inv:huge-quotient"); }
    E ea = {a}, out = {0x77};
    Goldilocks::inv(out, ea);
    if (ref::mul(Goldilocks::toU64(out), a) != 1) return ctx.fail("inv(" + hx(a) + ") = " + hx(out.fe) + ": product with the operand is " + hx(ref::mul(out.fe, a)));
    E r = Goldilocks::inv(ea);
    if (Goldilocks::toU64(r) != Goldilocks::toU64(out)) return ctx.fail("inv return-value form differs from out-parameter form");
    E al = {a}; Goldilocks::inv(al, al);
    if (Goldilocks::toU64(al) != Goldilocks::toU64(out)) return ctx.fail("inv with output aliasing the operand differs");
    uint64_t a2 = other_rep(a);
    if (a2 != a) { E t = {a2}; if (Goldilocks::toU64(Goldilocks::inv(t)) != Goldilocks::toU64(out)) return ctx.fail("inv depends on the representative: inv(" + hx(a2) + ") != inv(" + hx(a) + ")"); }
    // a second inversion of a closely related operand straight after the first (same low word / same high word / neighbour / one bit flipped)
    if (c.v.size() > 1) {
        uint64_t m = c.v[1], b;
        switch (m % 5) { case 0: b = a + 1; break; case 1: b = a ^ ((uint64_t)1 << ((m >> 8) % 64)); break; case 2: b = (a & 0xFFFFFFFFull) | (m & 0xFFFFFFFF00000000ull); break; case 3: b = (a & 0xFFFFFFFF00000000ull) | (m >> 32); break; default: b = ref::sub(0, a % PR); break; }
        if (b % PR != 0) {
            ctx.cls("inv:second-call-related-operand");
            E eb = {b}; E rb = Goldilocks::inv(eb);
            if (ref::mul(Goldilocks::toU64(rb), b) != 1) return ctx.fail("inv(" + hx(b) + ") called straight after inv(" + hx(a) + ") = " + hx(rb.fe) + ": product with the operand is " + hx(ref::mul(rb.fe, b)));
            E ra = Goldilocks::inv(ea);
            if (Goldilocks::toU64(ra) != Goldilocks::toU64(out)) return ctx.fail("inv(" + hx(a) + ") differs when repeated after inv(" + hx(b) + ")");
        }
    }
    return true;
}
// payload [a, b]
static bool body_div(const Case &c, Ctx &ctx)
{
    uint64_t a = c.v[0], b = c.v[1];
    if (b % PR == 0) b = PR - 1;
    if (a >= PR || b >= PR) ctx.nt("div:non-canonical-operand"); else ctx.nt("div:canonical");
    if (a % PR == 0) ctx.cls("div:zero-dividend");
    E ea = {a}, eb = {b}, out = {0x55};
    Goldilocks::div(out, ea, eb);
    if (ref::mul(Goldilocks::toU64(out), b) != a % PR) return ctx.fail("div(" + hx(a) + "," + hx(b) + ") = " + hx(out.fe) + ": times b gives " + hx(ref::mul(out.fe, b)));
    E r = Goldilocks::div(ea, eb), r2 = ea / eb;
    if (Goldilocks::toU64(r) != Goldilocks::toU64(out) || Goldilocks::toU64(r2) != Goldilocks::toU64(out)) return ctx.fail("div return/operator form differs");
    // in-place division: the result may be the dividend's or the divisor's own object
    { E x = {a}, y = {b}; Goldilocks::div(x, x, y); if (Goldilocks::toU64(x) != Goldilocks::toU64(out)) return ctx.fail("div(x, x, y) (result aliases the dividend): got " + hx(Goldilocks::toU64(x)) + " want " + hx(Goldilocks::toU64(out)) + " for a=" + hx(a) + " b=" + hx(b));
      E x2 = {a}, y2 = {b}; Goldilocks::div(y2, x2, y2); if (Goldilocks::toU64(y2) != Goldilocks::toU64(out)) return ctx.fail("div(y, x, y) (result aliases the divisor): got " + hx(Goldilocks::toU64(y2)) + " for a=" + hx(a) + " b=" + hx(b));
      ctx.cls("div:aliased-forms"); }
    E p = {other_rep(a)}, q = {other_rep(b)};
    if (Goldilocks::toU64(Goldilocks::div(p, q)) != Goldilocks::toU64(out)) return ctx.fail("div depends on the representative");
    return true;
}
// payload [base, e]
static bool body_exp(const Case &c, Ctx &ctx)
{
    uint64_t b = c.v[0], e = c.v[1];
    if (e == 0) ctx.nt("exp:e=0"); else if (e == 1) ctx.nt("exp:e=1"); else if ((e & (e - 1)) == 0) ctx.nt("exp:power-of-two"); else if (e >= PR - 2) ctx.nt("exp:e>=p-2"); else ctx.nt("exp:generic");
    if (b >= PR) ctx.cls("exp:non-canonical-base"); if (b % PR == 0) ctx.cls("exp:zero-base");
    uint64_t want = ref::pw(b, e);
    E eb = {b}, out = {0x99};
    Goldilocks::exp(out, eb, e);
    if (Goldilocks::toU64(out) != want) return ctx.fail("exp(" + hx(b) + "," + hx(e) + ") got " + hx(Goldilocks::toU64(out)) + " want " + hx(want));
    if (Goldilocks::toU64(Goldilocks::exp(eb, e)) != want) return ctx.fail("exp return form wrong");
    E t = {other_rep(b)};
    if (Goldilocks::toU64(Goldilocks::exp(t, e)) != want) return ctx.fail("exp depends on the representative");
    return true;
}
static std::streambuf *g_cerr_buf = nullptr; // original std::cerr buffer (the parent silences the library's toS32 diagnostics)
// payload [which]: 0 inv(0), 1 inv(p), 2 div(x,0), 3 div(x,p), 4 inv(0) out form; the call must never return
static bool body_refuse_zero(const Case &c, Ctx &ctx)
{
    ctx.nt((c.v[0] / 5) % 2 == 1 ? "refuse:zero-operand(first inversion of a fresh process)" : "refuse:zero-operand");
    int which = (int)(c.v[0] % 5);
    char path[64]; snprintf(path, sizeof path, "/dev/shm/pbt_c10_%d", (int)getpid());
    fflush(stdout); fflush(stderr);
    pid_t pid = fork();
    if (pid == 0) {
        int fd = open(path, O_WRONLY | O_CREAT | O_TRUNC, 0600); if (fd >= 0) { dup2(fd, 2); close(fd); }
        signal(SIGALRM, SIG_DFL); alarm(20);
        if (g_cerr_buf) std::cerr.rdbuf(g_cerr_buf);
        if ((c.v[0] / 5) % 2 == 1) {
            // a fresh process image: the refused inversion is the very first inversion this process (and thread) makes
            char w[8], xs[32]; snprintf(w, sizeof w, "%d", which); snprintf(xs, sizeof xs, "%llu", (unsigned long long)(c.v.size() > 1 ? c.v[1] : 5));
            setenv("PBT_NO_EARLY", "1", 1);
            execl("/proc/self/exe", "h_scalar2", "--refuse-child", w, xs, (char *)nullptr);
            _exit(0);
        }
        E z = {which == 1 || which == 3 ? PR : 0}, x = {c.v.size() > 1 ? c.v[1] : 5}, out;
        if (which == 0 || which == 1) out = Goldilocks::inv(z);
        else if (which == 4) Goldilocks::inv(out, z);
        else out = Goldilocks::div(x, z);
        fprintf(stderr, "RETURNED %llx\n", (unsigned long long)out.fe); fflush(stderr);
        _exit(0); // reached only if the call returned
    }
    int st = 0; waitpid(pid, &st, 0);
    std::string err; { std::ifstream f(path); std::stringstream ss; ss << f.rdbuf(); err = ss.str(); } unlink(path);
    if (err.find("RETURNED") != std::string::npos) return ctx.fail("inversion of an operand congruent to zero returned a value: " + err);
    if (WIFSIGNALED(st)) return ctx.fail("inversion of zero ended with signal " + std::to_string(WTERMSIG(st)) + " instead of a diagnostic and exit");
    if (!WIFEXITED(st) || WEXITSTATUS(st) == 0) return ctx.fail("inversion of zero: process exit status is 0");
    if (err.find("inv") == std::string::npos && err.find("zero") == std::string::npos) return ctx.fail("inversion of zero: no diagnostic on stderr (got '" + err + "')");
    return true;
}
static std::string desc_simple(const Case &c)
{
    std::string s = c.prop;
    for (size_t i = 0; i < c.v.size() && i < 6; i++) s += " " + hx(c.v[i]);
    return s;
}
static rc::Gen<uint64_t> gen_euclid()
{
    // operands that drive the Euclidean algorithm through extreme quotient patterns
    return rc::gen::weightedOneOf<uint64_t>({
        {4, g::fe()},
        {1, g::range(1, 5000)},                                                                        // small operands (what a table of small inverses would serve)
        {2, rc::gen::apply([](uint64_t q, int up) { if (q < 2) q = 2; return PR / q + (uint64_t)up; }, rc::gen::weightedOneOf<uint64_t>({{2, g::hilo()}, {2, g::range(2, 70000)}, {1, g::fe()}}), g::irange(0, 1))},
        {2, rc::gen::map(g::range(0, 16), [](uint64_t d) { return (uint64_t)(((u128)PR * 0x9E3779B97F4A7C15ull) >> 64) + d - 8; })}, // p/phi: all-ones quotients, longest chains
        {1, rc::gen::map(g::irange(0, 63), [](int k) { return (uint64_t)1 << k; })},
        {1, g::elem({0x100000001ull, 0xFFFFFFFFull, (PR + 1) / 2, (PR - 1) / 2, PR - 1, PR - 2, 2, 3, PR + 1, PR + 2, 0xFFFFFFFFFFFFFFFFull, 0xFFFFFFFF00000000ull})},
        {1, rc::gen::map(g::range(1, 0xFFFFFFFEull), [](uint64_t x) { return x + PR; })}});
}

// ---- C15 ------------------------------------------------------------------------------------
static mpz_class mpz_of_u64(uint64_t x) { mpz_class z; mpz_import(z.get_mpz_t(), 1, 1, 8, 0, 0, &x); return z; }
static uint64_t u64_of_mpz(const mpz_class &z) { uint64_t out = 0; size_t cnt = 0; mpz_export(&out, &cnt, 1, 8, 0, 0, z.get_mpz_t()); return cnt ? out : 0; }
static uint64_t floormod_p(const mpz_class &z) { mpz_class m, P = mpz_of_u64(PR); mpz_fdiv_r(m.get_mpz_t(), z.get_mpz_t(), P.get_mpz_t()); return u64_of_mpz(m); }
// payload [x, which]: fromU64 / fromS64 / fromS32 and back
static bool body_from_int(const Case &c, Ctx &ctx)
{
    uint64_t x = c.v[0]; int which = (int)(c.v[1] % 3);
    if (which == 0) {
        if (x >= PR) ctx.nt("fromU64:>=p"); else ctx.nt("fromU64:<p");
        E e = Goldilocks::fromU64(x); E e2; Goldilocks::fromU64(e2, x);
        if (Goldilocks::toU64(e) != x % PR || Goldilocks::toU64(e2) != x % PR) return ctx.fail("fromU64(" + hx(x) + ") -> " + hx(Goldilocks::toU64(e)));
        if (x < PR && Goldilocks::toU64(e) != x) return ctx.fail("u64 round trip not the identity below p");
    } else if (which == 1) {
        int64_t s = (int64_t)x;
        if (s < 0) ctx.nt("fromS64:negative"); else ctx.nt("fromS64:non-negative");
        if (s == INT64_MIN) ctx.cls("fromS64:INT64_MIN"); if (s == INT64_MAX) ctx.cls("fromS64:INT64_MAX");
        mpz_class z = (s < 0) ? -mpz_of_u64((uint64_t)0 - (uint64_t)s) : mpz_of_u64((uint64_t)s);
        uint64_t want = floormod_p(z);
        E e = Goldilocks::fromS64(s); E e2; Goldilocks::fromS64(e2, s);
        if (Goldilocks::toU64(e) != want || Goldilocks::toU64(e2) != want) return ctx.fail("fromS64(" + std::to_string(s) + ") -> " + hx(Goldilocks::toU64(e)) + " want " + hx(want));
        // round trip when |s| <= (p-1)/2
        uint64_t mag = s < 0 ? (uint64_t)0 - (uint64_t)s : (uint64_t)s;
        if (mag <= (PR - 1) / 2) {
            ctx.cls("S64-roundtrip-in-range");
            if (Goldilocks::toS64(e) != s) return ctx.fail("int64 round trip: " + std::to_string(s) + " -> " + std::to_string(Goldilocks::toS64(e)));
            int64_t o; Goldilocks::toS64(o, e); if (o != s) return ctx.fail("int64 round trip (out form)");
        }
    } else {
        int32_t s = (int32_t)(uint32_t)x;
        if (s == INT32_MIN) ctx.nt("fromS32:INT32_MIN"); else if (s < 0) ctx.nt("fromS32:negative"); else ctx.nt("fromS32:non-negative");
        uint64_t want = s < 0 ? PR - (uint64_t)(-(int64_t)s) : (uint64_t)s;
        E e = Goldilocks::fromS32(s); E e2; Goldilocks::fromS32(e2, s);
        if (Goldilocks::toU64(e) != want || Goldilocks::toU64(e2) != want) return ctx.fail("fromS32(" + std::to_string(s) + ") -> " + hx(Goldilocks::toU64(e)) + " want " + hx(want));
        int32_t back = 12345; bool ok = Goldilocks::toS32(back, e);
        if (!ok) return ctx.fail("toS32(fromS32(" + std::to_string(s) + ")) reports failure although every int32 lies in [-2^31, 2^31)");
        if (back != s) return ctx.fail("int32 round trip: " + std::to_string(s) + " -> " + std::to_string(back));
    }
    return true;
}
// payload [v]: outward conversions + predicates on any representation
static bool body_to_int(const Case &c, Ctx &ctx)
{
    uint64_t v = c.v[0], cv = v % PR;
    if (v >= PR) ctx.nt("to:non-canonical-representation"); else ctx.nt("to:canonical-representation");
    E e = {v};
    if (Goldilocks::toU64(e) != cv) return ctx.fail("toU64(" + hx(v) + ") = " + hx(Goldilocks::toU64(e)));
    uint64_t o; Goldilocks::toU64(o, e); if (o != cv) return ctx.fail("toU64 out form");
    // centred lift
    int64_t cs = cv <= (PR - 1) / 2 ? (int64_t)cv : -(int64_t)(PR - cv);
    if (cv == (PR - 1) / 2 || cv == (PR - 1) / 2 + 1) ctx.cls("to:centre-boundary");
    if (Goldilocks::toS64(e) != cs) return ctx.fail("toS64(" + hx(v) + ") = " + std::to_string(Goldilocks::toS64(e)) + " want " + std::to_string(cs));
    bool fits = cs >= (int64_t)INT32_MIN && cs <= (int64_t)INT32_MAX;
    if (cs == INT32_MIN || cs == INT32_MAX || cs == (int64_t)INT32_MIN - 1 || cs == (int64_t)INT32_MAX + 1) ctx.cls("to:int32-range-boundary");
    int32_t s32 = 777;
    // (the library prints a diagnostic on stderr when it refuses; silence it for the run)
    bool ok = Goldilocks::toS32(s32, e);
    if (ok != fits) return ctx.fail("toS32(" + hx(v) + "): success=" + std::to_string(ok) + " but centred value " + std::to_string(cs) + (fits ? " lies in" : " lies outside") + " [-2^31, 2^31)");
    if (ok && s32 != (int32_t)cs) return ctx.fail("toS32 value " + std::to_string(s32) + " want " + std::to_string(cs));
    if (fits) ctx.cls("to:fits-int32"); else ctx.cls("to:outside-int32");
    // toString in a radix, against an own digit routine
    int radix = 2 + (int)(c.v[1] % 35);
    std::string want; { uint64_t t = cv; if (!t) want = "0"; while (t) { int d = (int)(t % radix); want.insert(want.begin(), (char)(d < 10 ? '0' + d : 'a' + d - 10)); t /= radix; } }
    // now and then the application has installed a global C++ locale that groups digits ("1,234,567"): conversions must not pick that up
    struct Grouping : std::numpunct<char> { char do_thousands_sep() const override { return ','; } std::string do_grouping() const override { return "\3"; } };
    struct LocaleGuard { std::locale saved; bool on; LocaleGuard(bool o) : on(o) { if (on) saved = std::locale::global(std::locale(std::locale::classic(), new Grouping)); } ~LocaleGuard() { if (on) std::locale::global(saved); } };
    LocaleGuard lg(((c.v[2] >> 8) & 3) == 1 && !pbt::in_concurrent());
    if (lg.on) ctx.nt("to:global-locale-with-digit-grouping-installed");
    std::string got = Goldilocks::toString(e, radix);
    if (got != want) return ctx.fail("toString(" + hx(v) + ", radix " + std::to_string(radix) + ") = '" + got + "' want '" + want + "'");
    // output-parameter form: the destination string is reused by callers, so it is NOT empty before the call
    std::string g2 = (c.v[2] & 0x40) ? std::string() : std::string("previous contents 123"); Goldilocks::toString(g2, e, radix);
    if (g2 != want) return ctx.fail("toString(std::string&, ...) with a " + std::string((c.v[2] & 0x40) ? "empty" : "non-empty") + " destination string gives '" + g2 + "' want '" + want + "'");
    if (radix == 10 && Goldilocks::toString(e) != want) return ctx.fail("toString default radix");
    // string round trip
    if (Goldilocks::toU64(Goldilocks::fromString(got, radix)) != cv) return ctx.fail("fromString(toString(v)) != v");
    // predicates depend on the residue class only
    uint64_t v2 = other_rep(v);
    E e2 = {v2};
    if (!Goldilocks::equal(e, e2) || !(e == e2)) return ctx.fail("equal(" + hx(v) + "," + hx(v2) + ") is false for two representations of one residue");
    if (Goldilocks::isZero(e) != (cv == 0) || Goldilocks::isOne(e) != (cv == 1) || Goldilocks::isNegone(e) != (cv == PR - 1)) return ctx.fail("isZero/isOne/isNegone wrong on " + hx(v));
    if (Goldilocks::isZero(e2) != (cv == 0) || Goldilocks::isOne(e2) != (cv == 1) || Goldilocks::isNegone(e2) != (cv == PR - 1)) return ctx.fail("predicate differs between representations " + hx(v) + " / " + hx(v2));
    E e3 = {c.v.size() > 2 ? c.v[2] : v + 1};
    if (Goldilocks::equal(e, e3) != (e3.fe % PR == cv)) return ctx.fail("equal(" + hx(v) + "," + hx(e3.fe) + ") wrong");
    if (cv <= 1 || cv == PR - 1) ctx.cls("to:predicate-true-case");
    return true;
}
// payload [neg, radix, flags, limb0, limb1, ...]: integer Z of any sign/magnitude as string and as mpz
static mpz_class big_of(const Case &c)
{
    mpz_class z = 0;
    for (size_t i = c.v.size(); i-- > 3;) { z <<= 64; z += mpz_of_u64(c.v[i]); }
    if (c.v[0] & 1) z = -z;
    return z;
}
static bool body_from_big(const Case &c, Ctx &ctx)
{
    mpz_class z = big_of(c);
    int radix = 2 + (int)(c.v[1] % 35);
    uint64_t want = floormod_p(z);
    mpz_class P = mpz_of_u64(PR);
    if (z < -P) ctx.nt("big:below--p"); else if (z < 0) ctx.nt("big:in[-p,0)"); else if (z < P) ctx.nt("big:in[0,p)"); else if (mpz_sizeinbase(z.get_mpz_t(), 2) <= 64) ctx.nt("big:in[p,2^64)"); else ctx.nt("big:above-2^64");
    E a = Goldilocks::fromScalar(z); E a2; Goldilocks::fromScalar(a2, z);
    if (Goldilocks::toU64(a) != want || Goldilocks::toU64(a2) != want) return ctx.fail("fromScalar(" + z.get_str(10) + ") -> " + hx(Goldilocks::toU64(a)) + " want " + hx(want));
    std::string s = z.get_str(radix);
    if (c.v[2] & 1) for (auto &ch : s) if (ch >= 'a' && ch <= 'z' && ((c.v[2] >> (1 + (&ch - &s[0]) % 60)) & 1)) ch = (char)(ch - 'a' + 'A'); // mixed-case digits
    if ((c.v[2] & 6) == 6 && s[0] != '-') { /* leading zeros */ s = "000" + s; ctx.cls("big:leading-zeros"); }
    ctx.cls(radix == 10 ? "big:radix10" : radix == 16 ? "big:radix16" : radix == 2 ? "big:radix2" : radix == 36 ? "big:radix36" : "big:other-radix");
    E b = Goldilocks::fromString(s, radix); E b2; Goldilocks::fromString(b2, s, radix);
    if (Goldilocks::toU64(b) != want || Goldilocks::toU64(b2) != want) return ctx.fail("fromString(\"" + s + "\", " + std::to_string(radix) + ") -> " + hx(Goldilocks::toU64(b)) + " want " + hx(want));
    if (radix == 10) { E d = Goldilocks::fromString(s); if (Goldilocks::toU64(d) != want) return ctx.fail("fromString default radix wrong"); }
    return true;
}
static std::string desc_big(const Case &c) { return c.prop + " Z=" + big_of(c).get_str(10) + " radix=" + std::to_string(2 + c.v[1] % 35) + " flags=" + hx(c.v[2]); }
static rc::Gen<std::vector<uint64_t>> gen_big()
{
    // Z = k*p + d for k of any magnitude/sign, or raw limbs, or 2^64 +- d
    return rc::gen::exec([] {
        int mode = *g::irange(0, 5);
        uint64_t neg = *rc::gen::arbitrary<bool>() ? 1 : 0;
        uint64_t radixsel = *rc::gen::weightedOneOf<uint64_t>({{3, rc::gen::just<uint64_t>(8)}, {1, rc::gen::just<uint64_t>(14)}, {1, rc::gen::just<uint64_t>(0)}, {1, rc::gen::just<uint64_t>(34)}, {2, g::range(0, 34)}});
        uint64_t flags = *g::uni64();
        mpz_class z;
        mpz_class P = mpz_of_u64(PR);
        if (mode <= 2) {
            // straddle multiples of p: k in {0,1,2,3, small, huge}
            mpz_class k;
            int ks = *g::irange(0, 5);
            if (ks <= 3) k = ks; else if (ks == 4) k = mpz_of_u64(*g::range(0, 1000)); else { k = mpz_of_u64(*g::uni64()); k <<= (*g::irange(0, 72)); k += mpz_of_u64(*g::uni64()); }
            int64_t d = (int64_t)*g::range(0, 12) - 6;
            z = k * P + (d < 0 ? -mpz_of_u64((uint64_t)-d) : mpz_of_u64((uint64_t)d));
            if (*rc::gen::arbitrary<bool>()) z += mpz_of_u64(*g::fe());
        } else if (mode == 3) {
            z = 1; z <<= (*g::irange(0, 200)); int64_t d = (int64_t)*g::range(0, 8) - 4; z += (d < 0 ? -mpz_of_u64((uint64_t)-d) : mpz_of_u64((uint64_t)d));
        } else if (mode == 4) {
            z = mpz_of_u64(*g::fe());
        } else {
            int nl = *g::irange(1, 4); z = 0; for (int i = 0; i < nl; i++) { z <<= 64; z += mpz_of_u64(*g::fe()); }
        }
        if (z < 0) { z = -z; neg ^= 1; }
        std::vector<uint64_t> v{neg, radixsel, flags};
        mpz_class lim = 1; lim <<= 64;
        while (z > 0) { mpz_class lo = z % lim; v.push_back(u64_of_mpz(lo)); z >>= 64; }
        return v;
    });
}

int main(int argc, char **argv)
{
    // the library writes a diagnostic to stderr for every refused toS32: keep the logs small
    if (argc >= 4 && std::string(argv[1]) == "--refuse-child") {
        // re-executed by body_refuse_zero: nothing else has run in this process; the call must not return
        int which = atoi(argv[2]); uint64_t xv = strtoull(argv[3], nullptr, 10);
        E z = {which == 1 || which == 3 ? PR : 0}, x = {xv}, out;
        if (which == 0 || which == 1) out = Goldilocks::inv(z);
        else if (which == 4) Goldilocks::inv(out, z);
        else out = Goldilocks::div(x, z);
        fprintf(stderr, "RETURNED %llx\n", (unsigned long long)out.fe); fflush(stderr);
        _exit(0);
    }
    static std::ofstream devnull("/dev/null");
    g_cerr_buf = std::cerr.rdbuf(devnull.rdbuf());
    std::vector<pbt::PropDef> props = {
        {"c10.inv", [] { return rc::gen::apply([](uint64_t a, uint64_t m) { return std::vector<uint64_t>{a, m}; }, gen_euclid(), g::uni64()); }, body_inv, 4, false, desc_simple, 100},
        {"c10.div", [] { return rc::gen::apply([](uint64_t a, uint64_t b) { return std::vector<uint64_t>{a, b}; }, g::fe(), gen_euclid()); }, body_div, 2, false, desc_simple, 100},
        {"c10.exp", [] { return rc::gen::apply([](uint64_t b, uint64_t e) { return std::vector<uint64_t>{b, e}; }, g::fe(),
                                                rc::gen::weightedOneOf<uint64_t>({{2, g::elem({0, 1, 2, 3, PR - 1, PR - 2, PR, UINT64_MAX, UINT64_MAX - 1, 7, 0x100000000ull})}, {2, rc::gen::map(g::irange(0, 63), [](int k) { return (uint64_t)1 << k; })},
                                                                                  {1, rc::gen::map(g::irange(1, 64), [](int k) { return (uint64_t)(k == 64 ? UINT64_MAX : ((uint64_t)1 << k) - 1); })}, {3, g::uni64()}, {1, g::range(0, 300)}})); }, body_exp, 2, false, desc_simple, 100},
        {"c10.static_init", [] { return rc::gen::just(std::vector<uint64_t>{0}); }, body_static_init_c10, 0.0001, false, nullptr, 100},
        {"c15.static_init", [] { return rc::gen::just(std::vector<uint64_t>{0}); }, body_static_init_c15, 0.0001, false, nullptr, 100},
        {"c10.refuse_zero", [] { return rc::gen::apply([](int w, uint64_t x) { return std::vector<uint64_t>{(uint64_t)w, x}; }, g::irange(0, 9), g::fe()); }, body_refuse_zero, 0.002, false, desc_simple, 100},
        {"c15.from_int", [] { return rc::gen::apply([](uint64_t x, int w) { return std::vector<uint64_t>{x, (uint64_t)w}; },
                                                     rc::gen::weightedOneOf<uint64_t>({{3, g::fe()}, {2, g::elem({(uint64_t)INT64_MIN, (uint64_t)INT64_MAX, (uint64_t)INT64_MIN + 1, (uint64_t)(int64_t)INT32_MIN, (uint64_t)(int64_t)INT32_MAX, 0x80000000ull, 0x7FFFFFFFull, (uint64_t)-1, (uint64_t)-2, (PR - 1) / 2, (PR - 1) / 2 + 1, (uint64_t)0 - (PR - 1) / 2, (uint64_t)0 - (PR - 1) / 2 - 1, (uint64_t)0 - (PR - 1) / 2 + 1})},
                                                                                       {1, g::delta(0x80000000ull, 3)}, {1, g::delta(0xFFFFFFFF80000000ull, 3)}, {1, g::delta((uint64_t)0 - (PR - 1) / 2, 3)}, {1, g::range(0, 0xFFFFFFFFull)}}), g::irange(0, 2)); }, body_from_int, 3, false, desc_simple, 100},
        {"c15.to_int", [] { return rc::gen::apply([](uint64_t v, uint64_t r, uint64_t w) { return std::vector<uint64_t>{v, r, w}; },
                                                   rc::gen::weightedOneOf<uint64_t>({{3, g::fe()}, {2, g::delta((PR - 1) / 2, 3)}, {2, g::delta(0x80000000ull, 3)}, {2, g::delta(PR - 0x80000000ull, 3)}, {1, g::delta(PR + 0x7FFFFFFFull, 3)}, {1, g::delta(PR - 1, 3)}, {1, g::range(0, 0xFFFFFFFFull)}, {1, rc::gen::map(g::range(0, 0xFFFFFFFFull), [](uint64_t x) { return PR - x; })}}),
                                                   rc::gen::weightedOneOf<uint64_t>({{2, rc::gen::just<uint64_t>(8)}, {1, rc::gen::just<uint64_t>(14)}, {2, g::range(0, 34)}}), g::fe()); }, body_to_int, 3, false, desc_simple, 100},
        {"c15.from_big", [] { return gen_big(); }, body_from_big, 3, false, desc_big, 100},
    };
    for (auto &p : props) if (p.name != "c10.refuse_zero" && p.name.find("static_init") == std::string::npos && p.name != "c15.to_int") p.mt_ok = true;
    return pbt::harness_main(argc, argv, "h_scalar2", props);
}
