// C01 — scalar field operations are exact mod p on every 64-bit representation.
// Oracle: (a op b) mod p in unsigned __int128 (engine/ref.hpp) cross-checked with GMP.
#include "../engine/pbt.hpp"
#include "../engine/gen.hpp"
#include "goldilocks_base_field.hpp"
#include <gmpxx.h>

using pbt::Case; using pbt::Ctx;
typedef Goldilocks::Element E;
typedef unsigned __int128 u128;
static const uint64_t PR = ref::PR;

static std::string hx(uint64_t x) { char b[32]; snprintf(b, sizeof b, "0x%016llx", (unsigned long long)x); return b; }

// ---- calls made DURING STATIC INITIALISATION: this translation unit comes first on the link line, so the constructor below runs before the
// library's own translation units have been initialised; a fixed battery (operands that need the carry / borrow corrections) is recorded here
// and compared with the oracle later, from main (property c01.static_init)
static const uint64_t EARLY_OPS[][2] = {{0xFFFFFFFFFFFFFFFFull, 0xFFFFFFFFFFFFFFFFull}, {0xFFFFFFFF00000000ull, 5}, {3, 0xFFFFFFFF00000002ull}, {0, 1}, {0x8000000000000000ull, 0x8000000000000001ull},
                                        {0xFFFFFFFF00000001ull, 0xFFFFFFFFull}, {0x123456789ABCDEF0ull, 0xFEDCBA9876543210ull}, {1, 0xFFFFFFFF00000000ull}};
struct EarlyProbe {
    uint64_t r[8][6]; bool skipped = false;
    EarlyProbe() { if (getenv("PBT_NO_EARLY")) { skipped = true; return; } for (int i = 0; i < 8; i++) { E a = {EARLY_OPS[i][0]}, b = {EARLY_OPS[i][1]};
        r[i][0] = Goldilocks::toU64(a + b); r[i][1] = Goldilocks::toU64(a - b); r[i][2] = Goldilocks::toU64(a * b); r[i][3] = Goldilocks::toU64(Goldilocks::neg(a));
        r[i][4] = Goldilocks::toU64(Goldilocks::square(b)); r[i][5] = Goldilocks::toU64(Goldilocks::mulScalar(a, EARLY_OPS[i][1])); } }
};
static EarlyProbe g_early;
static bool body_static_init(const Case &, Ctx &ctx)
{
    if (g_early.skipped) { ctx.cls("context:static-initialisation-probe-switched-off"); return true; }
    ctx.nt("context:called-during-static-initialisation");
    for (int i = 0; i < 8; i++) { uint64_t a = EARLY_OPS[i][0], b = EARLY_OPS[i][1];
        uint64_t w[6] = {ref::add(a, b), ref::sub(a, b), ref::mul(a, b), ref::neg(a), ref::mul(b, b), ref::mul(a, b)};
        static const char *n[] = {"add", "sub", "mul", "neg", "square", "mulScalar"};
        for (int k = 0; k < 6; k++) if (g_early.r[i][k] != w[k]) return ctx.fail(std::string(n[k]) + "(" + hx(a) + ", " + hx(b) + ") called during static initialisation (before main) returned " + hx(g_early.r[i][k]) + ", want " + hx(w[k])); }
    return true;
}
// ---- a LEAF function (no calls, only the inlined field operations) working on a local array, the way the hash rounds use the operations:
// the inline assembly of an operation must leave everything but its declared outputs alone, including the stack red zone of its caller
static __attribute__((noinline)) void leaf_rounds(uint64_t *out, const uint64_t *in, uint64_t k)
{
    E s[12];
    for (int i = 0; i < 12; i++) s[i].fe = in[i];
    E kk = {k};
    for (int r = 0; r < 3; r++) {
        for (int i = 0; i < 12; i++) s[i] = s[i] - s[(i + 5) % 12];
        for (int i = 0; i < 12; i++) s[i] = s[i] * kk + s[(i + 1) % 12];
        for (int i = 0; i < 12; i += 3) s[i] = -s[i];
    }
    for (int i = 0; i < 12; i++) out[i] = Goldilocks::toU64(s[i]);
}
// payload: 12 words + k
static bool body_leaf(const Case &c, Ctx &ctx)
{
    ctx.nt("context:operations-inlined-into-a-leaf-function-with-local-state");
    uint64_t in[12], w[12], out[12]; for (int i = 0; i < 12; i++) { in[i] = c.v[i]; w[i] = c.v[i] % PR; }
    const uint64_t k = c.v[12];
    for (int r = 0; r < 3; r++) {
        for (int i = 0; i < 12; i++) w[i] = ref::sub(w[i], w[(i + 5) % 12]);
        for (int i = 0; i < 12; i++) w[i] = ref::add(ref::mul(w[i], k), w[(i + 1) % 12]);
        for (int i = 0; i < 12; i += 3) w[i] = ref::neg(w[i]);
    }
    leaf_rounds(out, in, k);
    for (int i = 0; i < 12; i++) if (out[i] != w[i]) return ctx.fail("three rounds of sub / mul-add / neg on a 12-element local array inside a leaf function: element " + std::to_string(i) + " is " + hx(out[i]) + ", want " + hx(w[i]));
    return true;
}

// GMP cross-check of the u128 oracle (independent second opinion on the reference itself)
static uint64_t gmp_op(int op, uint64_t a, uint64_t b)
{
    mpz_class A, B, Pz, R;
    mpz_import(A.get_mpz_t(), 1, 1, 8, 0, 0, &a);
    mpz_import(B.get_mpz_t(), 1, 1, 8, 0, 0, &b);
    uint64_t pr = PR;
    mpz_import(Pz.get_mpz_t(), 1, 1, 8, 0, 0, &pr);
    if (op == 0) R = A + B; else if (op == 1) R = A - B; else R = A * B;
    mpz_class M; mpz_fdiv_r(M.get_mpz_t(), R.get_mpz_t(), Pz.get_mpz_t());
    uint64_t out = 0; size_t cnt = 0;
    mpz_export(&out, &cnt, 1, 8, 0, 0, M.get_mpz_t());
    return cnt ? out : 0;
}
static uint64_t ref_op(int op, uint64_t a, uint64_t b) { return op == 0 ? ref::add(a, b) : op == 1 ? ref::sub(a, b) : ref::mul(a, b); }

// carry-chain model used only for classification (never as oracle)
static void classify_bin(int op, uint64_t a, uint64_t b, Ctx &ctx)
{
    if (a >= PR || b >= PR) ctx.nt("noncanonical-operand");
    if (op == 0) {
        u128 s = (u128)a + b;
        if (s >> 64) {
            uint64_t lo = (uint64_t)s;
            if ((u128)lo + 0xFFFFFFFFull >> 64) ctx.nt("add:second-carry"); else ctx.nt("add:first-carry");
        } else if ((uint64_t)s >= PR) ctx.nt("add:sum-in-noncanonical-band");
        else ctx.cls("add:no-carry");
    } else if (op == 1) {
        if (a < b) {
            uint64_t d = a - b;
            if (d < 0xFFFFFFFFull) ctx.nt("sub:second-borrow"); else ctx.nt("sub:first-borrow");
        } else ctx.cls("sub:no-borrow");
    } else {
        u128 n = (u128)a * b;
        uint64_t lo = (uint64_t)n, hi = (uint64_t)(n >> 64);
        uint64_t hl = hi & 0xFFFFFFFFull, hh = hi >> 32;
        uint64_t rdx = hl * 0xFFFFFFFFull + 0x100000000ull;
        u128 t = (u128)lo + rdx;
        uint64_t r = (uint64_t)t;
        if (t >> 64) { ctx.nt("mul:carry-after-fold"); r += 0xFFFFFFFFull; }
        if (r < hh + 0x100000000ull) ctx.nt("mul:final-borrow");
        if (hi == 0) ctx.cls("mul:hi-zero");
        if (hl == 0xFFFFFFFFull) ctx.nt("mul:hi_lo-all-ones");
        if (hh == 0xFFFFFFFFull || hh == 0xFFFFFFFEull) ctx.nt("mul:hi_hi-max");
    }
}

// payload: [a, b, alias]  alias: 0 none, 1 out==a, 2 out==b, 3 a==b (same object), 4 all the same object
static bool body_bin(int op, const Case &c, Ctx &ctx)
{
    uint64_t a = c.v[0], b = c.v[1]; int alias = (int)(c.v[2] % 5);
    if (alias >= 3) b = a;
    uint64_t want = ref_op(op, a, b);
    if (gmp_op(op, a, b) != want) return ctx.fail("internal: u128 and GMP oracles disagree");
    classify_bin(op, a, b, ctx);
    if (alias) ctx.nt(alias == 1 ? "alias:out==a" : alias == 2 ? "alias:out==b" : alias == 3 ? "alias:a==b" : "alias:all-same");
    E ea = {a}, eb = {b}, out = {0x1111111111111111ull};
    // out-parameter form under the requested aliasing
    switch (alias) {
    case 0: if (op == 0) Goldilocks::add(out, ea, eb); else if (op == 1) Goldilocks::sub(out, ea, eb); else Goldilocks::mul(out, ea, eb); break;
    case 1: if (op == 0) Goldilocks::add(ea, ea, eb); else if (op == 1) Goldilocks::sub(ea, ea, eb); else Goldilocks::mul(ea, ea, eb); out = ea; break;
    case 2: if (op == 0) Goldilocks::add(eb, ea, eb); else if (op == 1) Goldilocks::sub(eb, ea, eb); else Goldilocks::mul(eb, ea, eb); out = eb; break;
    case 3: if (op == 0) Goldilocks::add(out, ea, ea); else if (op == 1) Goldilocks::sub(out, ea, ea); else Goldilocks::mul(out, ea, ea); break;
    default: if (op == 0) Goldilocks::add(ea, ea, ea); else if (op == 1) Goldilocks::sub(ea, ea, ea); else Goldilocks::mul(ea, ea, ea); out = ea; break;
    }
    uint64_t got = Goldilocks::toU64(out);
    if (got != want) return ctx.fail("out-parameter form: got " + hx(got) + " (raw " + hx(out.fe) + ") want " + hx(want));
    // return-value and operator forms
    E x = {a}, y = {b};
    E r1 = op == 0 ? Goldilocks::add(x, y) : op == 1 ? Goldilocks::sub(x, y) : Goldilocks::mul(x, y);
    E r2 = op == 0 ? x + y : op == 1 ? x - y : x * y;
    if (Goldilocks::toU64(r1) != want) return ctx.fail("return-value form: got " + hx(Goldilocks::toU64(r1)) + " want " + hx(want));
    if (Goldilocks::toU64(r2) != want) return ctx.fail("operator form: got " + hx(Goldilocks::toU64(r2)) + " want " + hx(want));
    // residue-class independence (metamorphic): the other representative of each operand, when it exists
    uint64_t a2 = a >= PR ? a - PR : (a < 0xFFFFFFFFull ? a + PR : a);
    uint64_t b2 = b >= PR ? b - PR : (b < 0xFFFFFFFFull ? b + PR : b);
    if (a2 != a || b2 != b) {
        ctx.nt("metamorphic:other-representative");
        E p = {a2}, q = {b2};
        E m1 = op == 0 ? Goldilocks::add(p, q) : op == 1 ? Goldilocks::sub(p, q) : Goldilocks::mul(p, q);
        E m2 = op == 0 ? Goldilocks::add(x, q) : op == 1 ? Goldilocks::sub(x, q) : Goldilocks::mul(x, q);
        if (Goldilocks::toU64(m1) != want || Goldilocks::toU64(m2) != want)
            return ctx.fail("result depends on the representative: op(" + hx(a2) + "," + hx(b2) + ") -> " + hx(Goldilocks::toU64(m1)) + ", op(a," + hx(b2) + ") -> " + hx(Goldilocks::toU64(m2)) + " want " + hx(want));
    }
    return true;
}
static bool body_add(const Case &c, Ctx &x) { return body_bin(0, c, x); }
static bool body_sub(const Case &c, Ctx &x) { return body_bin(1, c, x); }
static bool body_mul(const Case &c, Ctx &x) { return body_bin(2, c, x); }

// payload [a, which, alias]: which 0 square 1 neg 2 inc 3 dec
static bool body_unary(const Case &c, Ctx &ctx)
{
    uint64_t a = c.v[0]; int which = (int)(c.v[1] % 4); bool alias = c.v[2] & 1;
    uint64_t want = which == 0 ? ref::mul(a, a) : which == 1 ? ref::neg(a) : which == 2 ? ref::add(a, 1) : ref::sub(a, 1);
    if (a >= PR) ctx.nt("noncanonical-operand");
    uint64_t ac = a % PR;
    if (which == 2) { if (a == PR - 2) ctx.nt("inc:p-2"); else if (a == PR - 1) ctx.nt("inc:p-1->0"); else if (a >= PR) ctx.nt("inc:noncanonical-path"); else ctx.cls("inc:plain"); }
    if (which == 3) { if (a == 0) ctx.nt("dec:0->p-1"); else if (a == PR) ctx.nt("dec:p"); else ctx.cls("dec:plain"); }
    if (which == 1) { if (ac == 0) ctx.nt("neg:zero-class"); else ctx.nt("neg:borrow"); }
    if (which == 0) classify_bin(2, a, a, ctx);
    E ea = {a}, out = {0x2222222222222222ull};
    uint64_t got, got2 = want;
    switch (which) {
    case 0: if (alias) { Goldilocks::square(ea, ea); out = ea; } else Goldilocks::square(out, ea); { E t = {a}; got2 = Goldilocks::toU64(Goldilocks::square(t)); } break;
    case 1: if (alias) { Goldilocks::neg(ea, ea); out = ea; } else Goldilocks::neg(out, ea); { E t = {a}; got2 = Goldilocks::toU64(-t); if (Goldilocks::toU64(Goldilocks::neg(t)) != want) return ctx.fail("neg return form wrong"); } break;
    case 2: out = Goldilocks::inc(ea); break;
    default: out = Goldilocks::dec(ea); break;
    }
    got = Goldilocks::toU64(out);
    if (alias && which < 2) ctx.nt("alias:out==a");
    if (got != want) return ctx.fail(std::string(which == 0 ? "square" : which == 1 ? "neg" : which == 2 ? "inc" : "dec") + ": got " + hx(got) + " (raw " + hx(out.fe) + ") want " + hx(want));
    if (got2 != want) return ctx.fail("return/operator form: got " + hx(got2) + " want " + hx(want));
    // other representative
    uint64_t a2 = a >= PR ? a - PR : (a < 0xFFFFFFFFull ? a + PR : a);
    if (a2 != a) {
        E t = {a2};
        E r = which == 0 ? Goldilocks::square(t) : which == 1 ? Goldilocks::neg(t) : which == 2 ? Goldilocks::inc(t) : Goldilocks::dec(t);
        if (Goldilocks::toU64(r) != want) return ctx.fail("result depends on the representative: f(" + hx(a2) + ") -> " + hx(Goldilocks::toU64(r)) + " want " + hx(want));
    }
    return true;
}
// payload [a, scalar, alias]
static bool body_mulscalar(const Case &c, Ctx &ctx)
{
    uint64_t a = c.v[0], s = c.v[1]; bool alias = c.v[2] & 1;
    uint64_t want = ref::mul(a, s);
    if (gmp_op(2, a, s) != want) return ctx.fail("internal: oracles disagree");
    if (s >= PR) ctx.nt("mulScalar:scalar>=p");
    classify_bin(2, a, s, ctx);
    E ea = {a}, out = {0x3333333333333333ull};
    if (alias) { Goldilocks::mulScalar(ea, ea, s); out = ea; ctx.nt("alias:out==a"); } else Goldilocks::mulScalar(out, ea, s);
    if ((c.v[2] >> 1) & 1) { // the integer scalar (a const reference parameter) is the word stored in the output element
        E o2 = {s}; Goldilocks::mulScalar(o2, ea.fe == a ? ea : E{a}, o2.fe); ctx.nt("alias:scalar-is-the-output-cell's-word");
        if (!alias && Goldilocks::toU64(o2) != want) return ctx.fail("mulScalar(out, base, out.fe) (the scalar argument refers to the output element's own word): got " + hx(Goldilocks::toU64(o2)) + " want " + hx(want));
    }
    E t = {a};
    E r = Goldilocks::mulScalar(t, s);
    if (Goldilocks::toU64(out) != want) return ctx.fail("mulScalar out form: got " + hx(Goldilocks::toU64(out)) + " want " + hx(want));
    if (Goldilocks::toU64(r) != want) return ctx.fail("mulScalar return form: got " + hx(Goldilocks::toU64(r)) + " want " + hx(want));
    return true;
}

static std::string desc(const Case &c)
{
    std::string s = c.prop + " a=" + hx(c.v[0]);
    if (c.prop == "c01.unary") { static const char *n[] = {"square", "neg", "inc", "dec"}; s += std::string(" op=") + n[c.v[1] % 4] + " alias=" + std::to_string(c.v[2] & 1); }
    else s += " b=" + hx(c.v[1]) + " alias=" + std::to_string(c.v[2] % 5);
    return s;
}

template <typename PG>
static std::function<rc::Gen<std::vector<uint64_t>>()> bin(PG pg)
{
    return [pg] {
        return rc::gen::apply([](g::P2 p, int al) { return std::vector<uint64_t>{p.first, p.second, (uint64_t)al}; },
                              pg(), rc::gen::weightedElement<int>({{6, 0}, {1, 1}, {1, 2}, {1, 3}, {1, 4}}));
    };
}

int main(int argc, char **argv)
{
    std::vector<pbt::PropDef> props = {
        {"c01.add", bin(g::pair_add), body_add, 3, false, desc, 100},
        {"c01.sub", bin(g::pair_sub), body_sub, 3, false, desc, 100},
        {"c01.mul", bin(g::pair_mul), body_mul, 4, false, desc, 100},
        {"c01.unary", [] { return rc::gen::apply([](uint64_t a, int w, int al) { return std::vector<uint64_t>{a, (uint64_t)w, (uint64_t)al}; },
                                                 rc::gen::weightedOneOf<uint64_t>({{5, g::fe()}, {1, g::delta(PR - 1, 3)}, {1, g::delta(0, 2)}}), g::irange(0, 3), g::irange(0, 1)); },
         body_unary, 3, false, desc, 100},
        {"c01.mulScalar", bin(g::pair_mul), body_mulscalar, 2, false, desc, 100},
        {"c01.leaf", [] { return g::fe_vec(13); }, body_leaf, 1, false, nullptr, 100},
        {"c01.static_init", [] { return rc::gen::just(std::vector<uint64_t>{0}); }, body_static_init, 0.0001, false, nullptr, 100},
    };
    for (auto &p : props) if (p.name != "c01.static_init") p.mt_ok = true; // (bodies keep no state: each may run as one of several concurrent callers, see pbt::concurrent_of)
    return pbt::harness_main(argc, argv, "h_c01", props);
}
