// C06 / C07 / C08 — Poseidon permutation (scalar = AVX2 = AVX512 = specification), linear_hash sponge, Merkle trees.
// Oracle: engine/ref_poseidon.hpp (textbook rounds on the library's C, M, P, S tables; u128 arithmetic).
#include "../engine/pbt.hpp"
#include "../engine/gen.hpp"
#include "../engine/guard.hpp"
#include "../engine/ref_poseidon.hpp"
#include "goldilocks_base_field.hpp"
#include "poseidon_goldilocks.hpp"
#include "merklehash_goldilocks.hpp"
#include <omp.h>

using pbt::Case; using pbt::Ctx;
typedef Goldilocks::Element E;
static const uint64_t PR = ref::PR;
static std::string hx(uint64_t x) { char b[32]; snprintf(b, sizeof b, "0x%016llx", (unsigned long long)x); return b; }
#if defined(__SANITIZE_ADDRESS__)
static const bool SAN = true;
#else
static const bool SAN = false;
#endif
static const uint64_t CANARY = 0xCA11AB1ECA11AB1Eull;
// ---- the scalar permutation called DURING STATIC INITIALISATION (this translation unit is first on the link line); the vector back ends are not
// probed here: their constants are namespace-scope objects of every translation unit by design
struct EarlyPerm { uint64_t out[2][12]; EarlyPerm() { for (int s = 0; s < 2; s++) { E in[12], o[12]; for (int i = 0; i < 12; i++) in[i].fe = s ? 0xFFFFFFFF00000000ull + 17 * i : (uint64_t)i; PoseidonGoldilocks::hash_full_result_seq(o, in); for (int i = 0; i < 12; i++) out[s][i] = o[i].fe % PR; } } };
static EarlyPerm g_early_perm;

// exact-size heap block of n elements; in non-sanitizer builds followed by `guard` canary elements
struct Block {
    E *p; uint64_t n, guard;
    Block(uint64_t n_, uint64_t guard_ = 8) : n(n_), guard(SAN ? 0 : guard_) { p = (E *)malloc((n + guard) * sizeof(E)); for (uint64_t i = 0; i < n + guard; i++) p[i].fe = CANARY + i; }
    bool intact() const { for (uint64_t i = n; i < n + guard; i++) if (p[i].fe != CANARY + i) return false; return true; }
    ~Block() { free(p); }
};

// ---- C06 ------------------------------------------------------------------------------------
static bool check_perm(const uint64_t A[12], const uint64_t B[12], Ctx &ctx)
{
    uint64_t wa[12], wb[12];
    refp::perm(wa, A); refp::perm(wb, B);
    auto cmp = [&](const char *who, const E *got, const uint64_t *want, int n) -> bool {
        for (int i = 0; i < n; i++) if (got[i].fe % PR != want[i]) { ctx.why = std::string(who) + ": element " + std::to_string(i) + " got " + hx(got[i].fe % PR) + " want " + hx(want[i]); return false; }
        return true;
    };
    E in[12], out[12];
    for (int i = 0; i < 12; i++) in[i].fe = A[i];
    PoseidonGoldilocks::hash_full_result_seq(out, in);
    if (!cmp("hash_full_result_seq", out, wa, 12)) return false;
    PoseidonGoldilocks::hash_full_result(out, in);
    if (!cmp("hash_full_result (AVX2)", out, wa, 12)) return false;
    { E st[12]; memcpy(st, in, sizeof st); PoseidonGoldilocks::hash_full_result(st, st); if (!cmp("hash_full_result (AVX2, in place)", st, wa, 12)) return false;
      memcpy(st, in, sizeof st); PoseidonGoldilocks::hash_full_result_seq(st, st); if (!cmp("hash_full_result_seq (in place)", st, wa, 12)) return false; }
    { E cap[4]; PoseidonGoldilocks::hash_seq(cap, (const E(&)[12])in); if (!cmp("hash_seq", cap, wa, 4)) return false;
      PoseidonGoldilocks::hash(cap, (const E(&)[12])in); if (!cmp("hash (AVX2)", cap, wa, 4)) return false; }
    for (int i = 0; i < 12; i++) if (in[i].fe != A[i]) { ctx.why = "input modified"; return false; }
    // hash chain: an in-place permutation followed by permutations whose input is exactly that result (sponges and Merkle paths chain
    // permutations like this; the k-th link must be perm^k(A) no matter what was computed before)
    { uint64_t w2[12], w3[12]; refp::perm(w2, wa); refp::perm(w3, w2);
      E st[12], o2[12]; memcpy(st, in, sizeof st);
      PoseidonGoldilocks::hash_full_result(st, st); PoseidonGoldilocks::hash_full_result(o2, st);
      if (!cmp("hash_full_result (AVX2) chained: second link (out of place, input = result of an in-place call)", o2, w2, 12)) return false;
      PoseidonGoldilocks::hash_full_result(st, st); if (!cmp("hash_full_result (AVX2) chained in place: second link", st, w2, 12)) return false;
      { E cap[4]; PoseidonGoldilocks::hash(cap, (const E(&)[12])st); if (!cmp("hash (AVX2) of the chained state", cap, w3, 4)) return false; }
      memcpy(st, in, sizeof st); PoseidonGoldilocks::hash_full_result_seq(st, st); PoseidonGoldilocks::hash_full_result_seq(o2, st);
      if (!cmp("hash_full_result_seq chained: second link", o2, w2, 12)) return false;
      // the same chain started on a state this backend has not seen before in this case (first call in place)
      uint64_t wb1[12], wb2[12]; refp::perm(wb1, B); refp::perm(wb2, wb1);
      for (int i = 0; i < 12; i++) st[i].fe = B[i];
      PoseidonGoldilocks::hash_full_result(st, st); if (!cmp("hash_full_result (AVX2) in place on a fresh state", st, wb1, 12)) return false;
      PoseidonGoldilocks::hash_full_result(o2, st); if (!cmp("hash_full_result (AVX2) chained after an in-place first call: second link", o2, wb2, 12)) return false;
      for (int i = 0; i < 12; i++) st[i].fe = B[i];
      PoseidonGoldilocks::hash_full_result_seq(st, st); PoseidonGoldilocks::hash_full_result_seq(o2, st); if (!cmp("hash_full_result_seq chained after an in-place first call", o2, wb2, 12)) return false; }
#ifdef __AVX512__
    E in2[24], out2[24];
    for (int j = 0; j < 3; j++) for (int i = 0; i < 4; i++) { in2[8 * j + i].fe = A[4 * j + i]; in2[8 * j + 4 + i].fe = B[4 * j + i]; }
    PoseidonGoldilocks::hash_full_result_avx512(out2, in2);
    E oa[12], ob[12];
    for (int j = 0; j < 3; j++) for (int i = 0; i < 4; i++) { oa[4 * j + i] = out2[8 * j + i]; ob[4 * j + i] = out2[8 * j + 4 + i]; }
    if (!cmp("hash_full_result_avx512 (state A)", oa, wa, 12)) return false;
    if (!cmp("hash_full_result_avx512 (state B)", ob, wb, 12)) return false;
    { uint64_t wa2[12], wb2[12]; refp::perm(wa2, wa); refp::perm(wb2, wb);
      E st2[24], o3[24]; memcpy(st2, in2, sizeof st2);
      PoseidonGoldilocks::hash_full_result_avx512(st2, st2); PoseidonGoldilocks::hash_full_result_avx512(o3, st2);
      E ca[12], cb[12]; for (int j = 0; j < 3; j++) for (int i = 0; i < 4; i++) { ca[4 * j + i] = o3[8 * j + i]; cb[4 * j + i] = o3[8 * j + 4 + i]; }
      if (!cmp("hash_full_result_avx512 chained: second link (state A)", ca, wa2, 12) || !cmp("hash_full_result_avx512 chained: second link (state B)", cb, wb2, 12)) return false; }
    E cap2[8]; PoseidonGoldilocks::hash_avx512(cap2, (const E(&)[24])in2);
    if (!cmp("hash_avx512 (A)", cap2, wa, 4) || !cmp("hash_avx512 (B)", cap2 + 4, wb, 4)) return false;
#else
    (void)wb;
#endif
    return true;
}
// payload: A[12], B[12]
static bool body_perm(const Case &c, Ctx &ctx)
{
    const uint64_t *A = &c.v[0], *B = &c.v[12];
    bool nc = false, edge = false;
    for (int i = 0; i < 24; i++) { if (c.v[i] >= PR) nc = true; if (c.v[i] < 4 || c.v[i] % PR >= PR - 4) edge = true; }
    if (nc) ctx.nt("perm:non-canonical-element"); else if (edge) ctx.nt("perm:edge-element"); else ctx.cls("perm:plain-state");
    { int eq = 0; for (int i = 0; i < 12; i++) if (A[i] == B[i]) eq++; if (eq == 12) ctx.cls("perm:pair-identical-states"); else if (eq >= 4) ctx.cls("perm:pair-states-share-elements(>=4)"); }
    return check_perm(A, B, ctx);
}
// payload: X[12] (target state entering a linear layer), B[12], layer
static bool body_backsolved(const Case &c, Ctx &ctx)
{
    int layer = 1 + (int)(c.v[24] % 4);
    uint64_t in[12], chk[12];
    refp::backsolve(in, &c.v[0], layer);
    refp::forward_to_layer(chk, in, layer);
    for (int i = 0; i < 12; i++) if (chk[i] != c.v[i] % PR) return ctx.fail("internal: back-solving does not reproduce the target state");
    static const char *ln[] = {"", "backsolved:layer1(M)", "backsolved:layer2(M)", "backsolved:layer3(M)", "backsolved:layer4(P)"};
    ctx.nt(ln[layer]);
    // use the +p alias of small inputs now and then
    if (c.v[24] & 0x100) for (int i = 0; i < 12; i++) if (in[i] < 0xFFFFFFFFull) in[i] += PR;
    uint64_t B[12];
    if (c.v[24] & 0x200) memcpy(B, in, sizeof B); else for (int i = 0; i < 12; i++) B[i] = c.v[12 + i];
    return check_perm(in, B, ctx);
}
// payload: X[12] (target state entering partial round r), B[12], flags (bits 0..4: r in 0..22)
static bool body_partial(const Case &c, Ctx &ctx)
{
    int r = (int)(c.v[24] & 31) % 23;
    uint64_t in[12], chk[12];
    refp::backsolve_partial(in, &c.v[0], r);
    refp::forward_to_partial(chk, in, r);
    for (int i = 0; i < 12; i++) if (chk[i] != c.v[i] % PR) return ctx.fail("internal: back-solving through the partial rounds does not reproduce the target state");
    ctx.nt(r == 22 ? "backsolved:state-leaving-the-partial-rounds" : r == 0 ? "backsolved:partial-round-0" : r < 11 ? "backsolved:partial-round-1..10" : "backsolved:partial-round-11..21");
    { static const char *MN[] = {"partial:residue-targeted-lane-product", "partial:integer-low-word-targeted-lane-product", "partial:lane0-dot-product-targeted", "partial:boundary-state"}; ctx.cls(MN[(c.v[24] >> 8) & 3]); }
    if (c.v[24] & 0x1000) for (int i = 0; i < 12; i++) if (in[i] < 0xFFFFFFFFull) in[i] += PR;
    uint64_t B[12];
    if (c.v[24] & 0x2000) memcpy(B, in, sizeof B); else for (int i = 0; i < 12; i++) B[i] = c.v[12 + i];
    return check_perm(in, B, ctx);
}
// generator for body_partial: the sbox output t0 of lane 0 in round r and one other lane i are solved against the round's sparse-matrix coefficient
// W = S[23r+11+i] so that the lane update x_i + t0*W sits on a boundary of the implementation's intermediate arithmetic
static uint64_t inv64(uint64_t b) { uint64_t x = b; for (int k = 0; k < 6; k++) x *= 2 - b * x; return x; } // inverse of an odd b modulo 2^64
static rc::Gen<std::vector<uint64_t>> gen_partial()
{
    return rc::gen::apply([](std::vector<uint64_t> v, uint64_t f, uint64_t u1, uint64_t u2, g::P2 pa) {
        namespace K = PoseidonGoldilocksConstants;
        int r = (int)(f & 31) % 23, mode = (int)((f >> 8) & 3), lane = 1 + (int)((f >> 16) % 11);
        if (r < 22 && mode < 3) {
            const uint64_t W = K::S[23 * r + (mode == 2 ? lane : 11 + lane)].fe % PR, C = K::C[5 * 12 + r].fe;
            uint64_t t0 = v[0] % PR;
            static const uint64_t RB[] = {0, 1, 2, 0xFFFFFFFEull, 0xFFFFFFFFull, 0x100000000ull, 0x100000001ull, PR - 1, PR - 2, PR - 0xFFFFFFFFull, 0x7FFFFFFFFFFFFFFFull, 0x8000000000000000ull, 0xFFFFFFFF00000000ull - 1, 0xFFFFFFFE00000001ull};
            if (mode == 0 || mode == 2) { // residue of the product t0*W on a boundary (raw vector products of such residues tend to be >= p)
                uint64_t rho = (u1 & 1) ? (u1 >> 32) : ref::add(RB[(u1 >> 1) % 14], (u1 >> 8) % 5);
                if (W) t0 = ref::mul(rho % PR, ref::inv(W));
                // partner lane: complements of the product (as residue rho, or as raw value rho + p) to 2^64, to p, to 2^32 boundaries, carries between the 32-bit words
                uint64_t vraw = (u2 & 1) && rho < 0xFFFFFFFFull ? rho + PR : rho, x;
                switch ((u2 >> 1) % 6) {
                case 0: x = (uint64_t)0 - vraw - (u2 >> 8) % 3; break;                            // sum reaches 2^64
                case 1: x = PR - (rho % PR) - (u2 >> 8) % 3; break;                                // sum reaches p
                case 2: x = ((u2 >> 32) << 32) | ((0x100000000ull - (vraw & 0xFFFFFFFFull) + (u2 >> 8) % 3 - 1) & 0xFFFFFFFFull); break; // low words carry
                case 3: x = 0xFFFFFFFFFFFFFFFFull - vraw + (u2 >> 8) % 3; break;
                case 4: x = pa.second; break;
                default: x = (0xFFFFFFFF00000000ull - vraw) + (u2 >> 8) % 5; break;
                }
                if (mode == 0) v[lane] = x % PR; else v[lane] = ref::mul(rho % PR, W ? ref::inv(W) : 1), t0 = v[0] % PR;
            } else { // the low 64 bits of the INTEGER product t0*W are tiny / just below 2^64 (fused multiply-add and 128-bit reductions borrow here)
                uint64_t Wo = W; int sh = 0; while (Wo && !(Wo & 1)) { Wo >>= 1; sh++; }
                uint64_t eps = (u1 & 1) ? (u1 >> 33) : (u1 & 2) ? (uint64_t)0 - 1 - (u1 >> 40) : (u1 >> 8) % 64;
                for (int tries = 0; tries < 8; tries++) { uint64_t cand = eps * inv64(Wo ? Wo : 1); if (sh) cand &= (~(uint64_t)0) >> sh; /* t0*W = eps*2^sh (mod 2^64) */ if (cand < PR && cand) { t0 = cand; break; } eps += 2; }
                static const uint64_t XS[] = {0, 1, 2, 1000, 0xFFFFFFFFull, 0x100000000ull}; v[lane] = (u2 & 1) ? XS[(u2 >> 1) % 6] : (u2 & 2) ? (u2 >> 32) : ((uint64_t)0 - ((unsigned __int128)t0 * W) - (u2 >> 8) % 3) % PR;
            }
            if (mode != 2) v[0] = refp::root7(ref::sub(t0, C)); // lane 0 enters the round as the 7th root of (t0 - C)
        }
        v.push_back(f);
        return v;
    }, g::fe_vec(24), g::uni64(), g::uni64(), g::uni64(), g::pair_add());
}
static std::string desc_perm(const Case &c)
{
    std::string s = c.prop + " A=";
    for (int i = 0; i < 12; i++) s += (i ? "," : "") + hx(c.v[i]);
    s += " B=";
    for (int i = 0; i < 12; i++) s += (i ? "," : "") + hx(c.v[12 + i]);
    if (c.v.size() > 24) s += " layer=" + std::to_string(1 + c.v[24] % 4) + " flags=" + hx(c.v[24]);
    return s;
}
// known-answer vectors of the shipped suite + table facts the vector code relies on
static bool body_kat(const Case &c, Ctx &ctx)
{
    ctx.nt("kat");
    if (c.v[0] == 0) {
        for (int s = 0; s < 2; s++) { uint64_t in[12], w[12]; for (int i = 0; i < 12; i++) in[i] = s ? 0xFFFFFFFF00000000ull + 17 * i : (uint64_t)i; refp::perm(w, in);
            for (int i = 0; i < 12; i++) if (g_early_perm.out[s][i] != w[i]) return ctx.fail("hash_full_result_seq called during static initialisation (before main) returned element " + std::to_string(i) + " = " + hx(g_early_perm.out[s][i]) + ", want " + hx(w[i])); }
        ctx.cls("context:scalar-permutation-called-during-static-initialisation");
        uint64_t in[12], out[12]; for (int i = 0; i < 12; i++) in[i] = i; // fibonacci-free simple vector
        // tests.cpp poseidon_full_seq: input fibonacci 0,1,1,2,3,...
        uint64_t f[12]; f[0] = 0; f[1] = 1; for (int i = 2; i < 12; i++) f[i] = f[i - 1] + f[i - 2];
        refp::perm(out, f);
        static const uint64_t want[4] = {0x3095570037f4605d, 0x3d561b5ef1bc8b58, 0x8129db5ec75c3226, 0x8ec2b67afb6b87ed};
        for (int i = 0; i < 4; i++) if (out[i] != want[i]) return ctx.fail("reference permutation does not reproduce the suite's known answer (tables changed?) element " + std::to_string(i) + " got " + hx(out[i]));
        return check_perm(f, in, ctx);
    }
    // table facts
    namespace K = PoseidonGoldilocksConstants;
    for (int i = 0; i < 118; i++) if (K::C[i].fe >= PR) return ctx.fail("C[" + std::to_string(i) + "] not canonical");
    for (int i = 0; i < 507; i++) if (K::S[i].fe >= PR) return ctx.fail("S[" + std::to_string(i) + "] not canonical");
    for (int i = 0; i < 144; i++) {
        if (K::P_[i].fe >= PR) return ctx.fail("P_ entry not canonical");
        if (K::M_[i].fe >= 256) return ctx.fail("M_ entry does not fit 8 bits but is used with the 8-bit kernels");
    }
    // M_/P_ are what the vector code multiplies with: out[k] = sum_t st[t] * M_[12k+t] must equal the scalar mvp: out[k] = sum_t M[t][k] st[t]
    for (int k = 0; k < 12; k++) for (int t = 0; t < 12; t++) {
        if (K::M_[12 * k + t].fe % PR != K::M[t][k].fe % PR) return ctx.fail("M_ is not the transpose layout of M at " + std::to_string(k) + "," + std::to_string(t));
        if (K::P_[12 * k + t].fe % PR != K::P[t][k].fe % PR) return ctx.fail("P_ is not the transpose layout of P at " + std::to_string(k) + "," + std::to_string(t));
    }
    // add_avx_small / add_avx512_small are fed C[0..48) and C[5*12+22 ..): must satisfy b <= 0xFFFFFFFF00000000 (AVX2) / canonical (AVX512)
    for (int i = 0; i < 118; i++) if (K::C[i].fe > 0xFFFFFFFF00000000ull) return ctx.fail("round constant violates the b_small assumption");
    return true;
}

// ---- C07 ------------------------------------------------------------------------------------
// payload: [len, seed, explicit elements...]; element i = explicit[i] if present else class-hashed from seed
static uint64_t hashed_elem(uint64_t seed, uint64_t i)
{
    uint64_t h = pbt::mix(seed, i), h2 = pbt::mix(h, 77);
    switch (h >> 61) {
    case 0: case 1: case 2: case 3: return h2;
    case 4: return PR + h2 % 0xFFFFFFFFull;
    case 5: { static const uint64_t e[] = {0, 1, PR - 1, PR, 0xFFFFFFFFFFFFFFFFull, 0xFFFFFFFF00000000ull, 0xFFFFFFFFull, 0x100000000ull}; return e[h2 & 7]; }
    case 6: return h2 & 15;
    default: return 0;
    }
}
// second input of the paired (AVX512) variant: independent of the first one, or RELATED to it (identical / one element changed / last element
// changed / a common prefix): the two digests must still be those of the two inputs
static int lh_rel(const Case &c) { int m = (int)((c.v[1] >> 56) & 7); return m < 4 ? 0 : m - 3; }
static uint64_t lh_elem(const Case &c, uint64_t i, int which)
{
    if (which == 0) { if (2 + i < c.v.size()) return c.v[2 + i]; return hashed_elem(c.v[1], i); }
    const int rel = lh_rel(c); const uint64_t len = c.v[0], pos = len ? (c.v[1] >> 20) % len : 0;
    bool same = rel == 1 || (rel == 2 && i != pos) || (rel == 3 && i + 1 != len) || (rel == 4 && i < pos);
    if (same) return lh_elem(c, i, 0);
    uint64_t y = hashed_elem(c.v[1] + 0x9e37, i); if (rel && y == lh_elem(c, i, 0)) y ^= 1;
    return y;
}
static bool body_linear_hash(const Case &c, Ctx &ctx)
{
    uint64_t len = c.v[0];
    if (len <= 4) ctx.nt("lh:pass-through(<=4)"); else if (len <= 8) ctx.nt("lh:single-block(5..8)"); else if (len % 8) ctx.nt("lh:partial-last-block"); else ctx.cls("lh:multiple-of-8");
    if (len > 5000) ctx.cls("lh:long-input-near-a-power-of-two(2^13..2^16)");
    if (len == 0) ctx.cls("lh:empty");
    { static const char *RN[] = {nullptr, "lh:pair-identical-inputs", "lh:pair-differs-in-one-element", "lh:pair-differs-in-last-element", "lh:pair-common-prefix"}; if (lh_rel(c) && len) ctx.cls(RN[lh_rel(c)]); }
    std::vector<uint64_t> x(len), y(len);
    for (uint64_t i = 0; i < len; i++) { x[i] = lh_elem(c, i, 0); y[i] = lh_elem(c, i, 1); }
    uint64_t wx[4], wy[4];
    refp::linear_hash(wx, x.data(), len); refp::linear_hash(wy, y.data(), len);
    auto run = [&](int variant, const std::vector<uint64_t> &in1, const std::vector<uint64_t> &in2, uint64_t junk, std::string &why) -> bool {
        // exact-size input (san build: red zone right after; other builds: junk after the input, which must not influence the digest)
        uint64_t n = variant == 2 ? 2 * len : len;
        // junk == 0: the input ends exactly at a guard page (a read past the declared length faults); otherwise junk follows the input
        guard::Buf gin; Block inb(junk ? n : 0, 16), out(variant == 2 ? 8 : 4, 8);
        struct { E *p; uint64_t guard; } in;
        if (junk == 0) { gin.alloc(n * sizeof(E)); in.p = gin.as<E>(); in.guard = 0; } else { in.p = inb.p; in.guard = inb.guard; }
        for (uint64_t i = 0; i < len; i++) { in.p[i].fe = in1[i]; if (variant == 2) in.p[len + i].fe = in2[i]; }
        for (uint64_t i = n; i < n + in.guard; i++) in.p[i].fe = junk + i;
        if (variant == 0) PoseidonGoldilocks::linear_hash_seq(out.p, in.p, len);
        else if (variant == 1) PoseidonGoldilocks::linear_hash(out.p, in.p, len);
#ifdef __AVX512__
        else PoseidonGoldilocks::linear_hash_avx512(out.p, in.p, len);
#endif
        static const char *vn[] = {"linear_hash_seq", "linear_hash (AVX2)", "linear_hash_avx512"};
        for (int i = 0; i < 4; i++) if (out.p[i].fe % PR != wx[i]) { why = std::string(vn[variant]) + " len=" + std::to_string(len) + ": digest[" + std::to_string(i) + "] got " + hx(out.p[i].fe % PR) + " want " + hx(wx[i]); return false; }
        if (variant == 2) for (int i = 0; i < 4; i++) if (out.p[4 + i].fe % PR != wy[i]) { why = std::string(vn[variant]) + " len=" + std::to_string(len) + ": second digest[" + std::to_string(i) + "] got " + hx(out.p[4 + i].fe % PR) + " want " + hx(wy[i]); return false; }
        if (!out.intact()) { why = std::string(vn[variant]) + ": wrote past the digest"; return false; }
        for (uint64_t i = 0; i < len; i++) if (in.p[i].fe != in1[i]) { why = std::string(vn[variant]) + ": input modified"; return false; }
        return true;
    };
    std::string why;
    for (int variant = 0; variant < 2; variant++) for (uint64_t junk : {0x1111000000000000ull, 0xEEEE000000000000ull, 0ull}) if (!run(variant, x, y, junk, why)) return ctx.fail(why);
#ifdef __AVX512__
    for (uint64_t junk : {0x1111000000000000ull, 0xEEEE000000000000ull, 0ull}) if (!run(2, x, y, junk, why)) return ctx.fail(why);
#endif
    return true;
}
// payload [len, seed]: very long inputs (more than 2^24 elements: block counts and byte counts beyond float / 32-bit exactness)
static bool body_lh_huge(const Case &c, Ctx &ctx)
{
    const uint64_t len = c.v[0];
    ctx.nt(len % 8 == 1 ? "lh:huge(>2^24-elements,len%8==1)" : "lh:huge(>2^24-elements)");
    uint64_t *in = (uint64_t *)malloc(len * sizeof(uint64_t));
    for (uint64_t i = 0; i < len; i++) in[i] = hashed_elem(c.v[1], i);
    uint64_t w[4]; refp::linear_hash(w, in, len);
    E out[4]; std::string why;
    PoseidonGoldilocks::linear_hash_seq(out, (E *)in, len);
    for (int i = 0; i < 4 && why.empty(); i++) if (out[i].fe % PR != w[i]) why = "linear_hash_seq len=" + std::to_string(len) + ": digest[" + std::to_string(i) + "] got " + hx(out[i].fe % PR) + " want " + hx(w[i]);
    if (why.empty()) { PoseidonGoldilocks::linear_hash(out, (E *)in, len);
        for (int i = 0; i < 4 && why.empty(); i++) if (out[i].fe % PR != w[i]) why = "linear_hash (AVX2) len=" + std::to_string(len) + ": digest[" + std::to_string(i) + "] got " + hx(out[i].fe % PR) + " want " + hx(w[i]); }
    free(in);
    if (!why.empty()) return ctx.fail(why);
    return true;
}
static std::string desc_lh(const Case &c)
{
    std::string s = c.prop + " len=" + std::to_string(c.v[0]) + " seed=" + hx(c.v[1]) + " explicit=[";
    for (size_t i = 2; i < c.v.size() && i < 14; i++) s += (i > 2 ? "," : "") + hx(c.v[i]);
    return s + (c.v.size() > 14 ? ",...]" : "]");
}

// ---- C08 ------------------------------------------------------------------------------------
enum { V_SEQ, V_AVX, V_AVX512, V_BSEQ, V_BAVX, V_BAVX512, V_WRAP, V_BWRAP, NVAR };
static const char *VN[] = {"merkletree_seq", "merkletree_avx", "merkletree_avx512", "merkletree_batch_seq", "merkletree_batch_avx", "merkletree_batch_avx512", "merkletree (wrapper)", "merkletree_batch (wrapper)"};
static bool is_batch(int v) { return v == V_BSEQ || v == V_BAVX || v == V_BAVX512 || v == V_BWRAP; }
// payload: [variant, logrows, cols, dim, batch, nthreads, seed]
static bool body_merkle(const Case &c, Ctx &ctx)
{
    int variant = (int)c.v[0]; uint64_t rows = 1ull << c.v[1], cols = c.v[2], dim = c.v[3], batch = c.v[4]; int nth = (int)c.v[5]; uint64_t seed = c.v[6];
#ifndef __AVX512__
    if (variant == V_AVX512) variant = V_AVX; if (variant == V_BAVX512) variant = V_BAVX;
#endif
    if (batch < 1) batch = 1;
    bool nt = false;
    if (rows != 64) nt = true;
    if (rows == 1) ctx.cls("mt:one-row");
    if (rows >= 2048) ctx.cls("mt:tall-tree(>=2^11-rows)");
    if (cols == 0) { ctx.cls("mt:zero-cols"); nt = true; }
    if (dim > 1) { ctx.cls("mt:dim>1"); nt = true; }
    if (is_batch(variant)) { if (cols % batch) { ctx.cls("mt:batch-not-dividing-cols"); nt = true; } if (batch >= cols) ctx.cls("mt:batch>=cols"); else ctx.cls("mt:several-batches"); }
    if (nth) { ctx.cls("mt:explicit-threads"); nt = true; }
    ctx.cls(VN[variant]);
    ctx.nontrivial = nt;
    uint64_t rowlen = cols * dim;
    guard::Buf gin(rows * rowlen * sizeof(E)); // the input matrix ends exactly at a guard page
    struct { E *p; } in; in.p = gin.as<E>();
    std::vector<uint64_t> x(rows * rowlen);
    for (uint64_t i = 0; i < x.size(); i++) { x[i] = hashed_elem(seed, i); in.p[i].fe = x[i]; }
    uint64_t nel = MerklehashGoldilocks::getTreeNumElements(rows);
    if (nel != refp::tree_elems(rows)) return ctx.fail("getTreeNumElements(" + std::to_string(rows) + ") = " + std::to_string(nel));
    Block tree(nel, 16);
    // payload[7] & 1: the builder is called from inside an active parallel region (nested parallelism is off by default, so the
    // runtime delivers a team of ONE although nThreads were requested -- a legal outcome for any OpenMP program)
    const bool nested = c.v.size() > 7 && (c.v[7] & 1);
    if (nested) ctx.nt("mt:called-inside-parallel-region(fewer-threads-delivered)");
    auto build = [&]() {
    switch (variant) {
    case V_SEQ: PoseidonGoldilocks::merkletree_seq(tree.p, in.p, cols, rows, nth, dim); break;
    case V_AVX: PoseidonGoldilocks::merkletree_avx(tree.p, in.p, cols, rows, nth, dim); break;
    case V_BSEQ: PoseidonGoldilocks::merkletree_batch_seq(tree.p, in.p, cols, rows, batch, nth, dim); break;
    case V_BAVX: PoseidonGoldilocks::merkletree_batch_avx(tree.p, in.p, cols, rows, batch, nth, dim); break;
    case V_WRAP: PoseidonGoldilocks::merkletree(tree.p, in.p, cols, rows, nth, dim); break;
    case V_BWRAP: PoseidonGoldilocks::merkletree_batch(tree.p, in.p, cols, rows, batch, nth, dim); break;
#ifdef __AVX512__
    case V_AVX512: PoseidonGoldilocks::merkletree_avx512(tree.p, in.p, cols, rows, nth, dim); break;
    case V_BAVX512: PoseidonGoldilocks::merkletree_batch_avx512(tree.p, in.p, cols, rows, batch, nth, dim); break;
#endif
    }
    };
    // payload[7] bits 1-2 == 1: the application has called omp_set_num_threads(k) (k from bits 3-5) before the call
    const bool appthreads = c.v.size() > 7 && ((c.v[7] >> 1) & 3) == 1;
    const int saved_threads = omp_get_max_threads();
    if (appthreads) { omp_set_num_threads(1 + (int)((c.v[7] >> 3) % 7)); ctx.nt("mt:application-called-omp_set_num_threads-before"); }
    if (!nested) build();
    else {
#pragma omp parallel num_threads(2)
        { if (omp_get_thread_num() == 0) build(); }
    }
    if (appthreads) omp_set_num_threads(saved_threads);
    // reference
    std::vector<uint64_t> leaves(rows * 4);
    for (uint64_t r = 0; r < rows; r++) {
        if (!is_batch(variant)) refp::linear_hash(leaves.data() + 4 * r, x.data() + r * rowlen, rowlen);
        else {
            uint64_t nb = cols ? (cols + batch - 1) / batch : 1;
            std::vector<uint64_t> dig(nb * 4);
            for (uint64_t j = 0; j < nb; j++) {
                uint64_t nn = (j == nb - 1) ? cols - (nb - 1) * batch : batch;
                refp::linear_hash(dig.data() + 4 * j, x.data() + r * rowlen + j * batch * dim, nn * dim);
            }
            refp::linear_hash(leaves.data() + 4 * r, dig.data(), nb * 4);
        }
    }
    std::vector<uint64_t> want = refp::merkle(leaves, rows);
    std::string tag = std::string(VN[variant]) + " rows=" + std::to_string(rows) + " cols=" + std::to_string(cols) + " dim=" + std::to_string(dim) + (is_batch(variant) ? " batch=" + std::to_string(batch) : "") + " nThreads=" + std::to_string(nth);
    if (!tree.intact()) return ctx.fail(tag + ": wrote past the " + std::to_string(nel) + "-element tree buffer");
    for (uint64_t i = 0; i < nel; i++) if (tree.p[i].fe % PR != want[i]) return ctx.fail(tag + ": tree element " + std::to_string(i) + " got " + hx(tree.p[i].fe % PR) + " want " + hx(want[i]));
    E root[4];
    MerklehashGoldilocks::root(&root[0], tree.p, nel);
    for (int i = 0; i < 4; i++) if (root[i].fe % PR != want[nel - 4 + i]) return ctx.fail(tag + ": root()[" + std::to_string(i) + "] wrong");
    for (uint64_t i = 0; i < x.size(); i++) if (in.p[i].fe != x[i]) return ctx.fail(tag + ": input modified");
    return true;
}
static std::string desc_merkle(const Case &c)
{
    return c.prop + " " + VN[c.v[0] % NVAR] + " rows=2^" + std::to_string(c.v[1]) + " cols=" + std::to_string(c.v[2]) + " dim=" + std::to_string(c.v[3]) + " batch=" + std::to_string(c.v[4]) + " nThreads=" + std::to_string(c.v[5]) + " seed=" + hx(c.v[6]) + (c.v.size() > 7 && (c.v[7] & 1) ? " [called inside a parallel region]" : "") + (c.v.size() > 7 && ((c.v[7] >> 1) & 3) == 1 ? " [app omp_set_num_threads(" + std::to_string(1 + (c.v[7] >> 3) % 7) + ")]" : "");
}

static int g_level = 0;
static std::vector<std::vector<uint64_t>> &merkle_space()
{
    static std::vector<std::vector<uint64_t>> sp;
    if (!sp.empty()) return sp;
    const bool full = g_level >= 1;
    std::vector<uint64_t> colsv = full ? std::vector<uint64_t>{0, 1, 2, 3, 4, 5, 6, 7, 8, 9, 10, 11, 12, 13, 15, 16, 17, 20, 31, 32, 33, 128} : std::vector<uint64_t>{0, 1, 3, 4, 5, 8, 9, 12, 13, 17, 33};
    int maxlr = full ? 7 : 4;
    static const int ths[] = {0, 1, 2, 3, 5, 16};
    uint64_t ctr = 0;
    for (int v = 0; v < NVAR; v++)
        for (int lr = 0; lr <= maxlr; lr++)
            for (uint64_t cols : colsv)
                for (uint64_t dim : {1, 2, 3}) {
                    if (cols * dim > 140 && lr > 4) continue;
                    std::vector<uint64_t> batches{1};
                    if (is_batch(v)) { batches = {1, 2, 3, 4, 5, 8, cols > 1 ? cols - 1 : 1, cols ? cols : 1, cols + 1, cols + 3, 1ull << 20}; if (!full) batches = {1, 3, 4, cols > 1 ? cols - 1 : 1, cols + 1, 1ull << 20}; }
                    std::sort(batches.begin(), batches.end()); batches.erase(std::unique(batches.begin(), batches.end()), batches.end());
                    for (uint64_t b : batches) { ctr++; sp.push_back({(uint64_t)v, (uint64_t)lr, cols, dim, b, (uint64_t)ths[ctr % 6], pbt::mix(ctr, 5), (uint64_t)(ctr % 7 == 3)}); }
                }
    return sp;
}

#ifndef PBT_NO_MAIN
int main(int argc, char **argv)
{
    for (int i = 1; i + 1 < argc; i++) if (std::string(argv[i]) == "--level") g_level = atoi(argv[i + 1]);
    std::vector<pbt::PropDef> props;
    props.push_back({"c06.perm", [] { return rc::gen::map(rc::gen::pair(rc::gen::weightedOneOf<std::vector<uint64_t>>({{6, g::fe_vec(24)},
                                         // relations among the three 4-element blocks of ONE state: block sums that vanish modulo 2^64 or modulo p although the state is not zero,
                                         // equal blocks, one block the negation of another (what a whole-register test on a sum / xor of the blocks would confuse with zero)
                                         {2, rc::gen::apply([](std::vector<uint64_t> v, uint64_t m) { for (int s = 0; s < 2; s++) { uint64_t *q = &v[12 * s]; int rel = (int)((m >> (8 * s)) % 6);
                                                 for (int j = 0; j < 4; j++) { if (((m >> (16 + 4 * s + j)) & 1) && rel < 2) continue; // (some columns only)
                                                     switch (rel) { case 0: case 1: q[8 + j] = (uint64_t)0 - (q[j] + q[4 + j]); break; case 2: q[8 + j] = ref::sub(0, ref::add(q[j], q[4 + j])); break;
                                                                    case 3: q[4 + j] = q[j]; q[8 + j] = q[j]; break; case 4: q[4 + j] = (uint64_t)0 - q[j]; q[8 + j] = 0; break; default: q[4 + j] = q[j] ^ q[8 + j]; break; } } }
                                                 return v; }, g::fe_vec(24), g::uni64())},
                                         // the two states of a pair are RELATED: identical, or differing only in the capacity part / only in the rate part / in one element
                                         {2, rc::gen::apply([](std::vector<uint64_t> v, uint64_t m) { int rel = (int)(m % 5); int one = (int)((m >> 8) % 12);
                                                 for (int i = 0; i < 12; i++) { bool keep = rel == 0 || (rel == 1 && i < 8) || (rel == 2 && i >= 8) || (rel == 3 && i != one) || (rel == 4 && i >= 4); if (keep) v[12 + i] = v[i]; else if (v[12 + i] == v[i]) v[12 + i] ^= 1; }
                                                 return v; }, g::fe_vec(24), g::uni64())}, {1, rc::gen::map(g::fe(), [](uint64_t x) { return std::vector<uint64_t>(24, x); })},
                                         {1, rc::gen::apply([](uint64_t x, int pos) { std::vector<uint64_t> v(24, 0); v[pos] = x; v[12 + (pos * 5) % 12] = x; return v; }, g::fe(), g::irange(0, 11))}}), rc::gen::just(0)),
                                         [](const std::pair<std::vector<uint64_t>, int> &p) { return p.first; }); }, body_perm, 3, false, desc_perm, 100});
    props.push_back({"c06.backsolved", [] { return rc::gen::apply([](std::vector<uint64_t> v, std::vector<g::P2> small, uint64_t flags) {
                         // half of the cases: make products x_t * P[t][k] (k = flags-chosen output) small residues (< 2^32) for several t: raw lane products then tend to be non-canonical
                         // a quarter of the cases: x_t = floor((k*2^64 - d) / m) for a small matrix entry m of M (k <= m): the 72-bit product x_t*m then has a low word
                         // within d of 2^64 (non-canonical / > 0xFFFFFFFF00000000 low parts, several in the same output lane when several t are crafted)
                         if (((flags >> 12) & 3) == 2) { namespace K = PoseidonGoldilocksConstants; int kk = (flags >> 16) % 12;
                             for (int t = 0; t < 12; t++) if ((flags >> (20 + t)) & 1) { uint64_t m = K::M[t][kk].fe % PR; if (m == 0 || m > 255) continue; uint64_t mult = 1 + (small[t].second % m);
                                 unsigned __int128 target = ((unsigned __int128)mult << 64) - 1 - (small[t].first % 64); v[t] = (uint64_t)(target / m) % PR; } }
                         else if ((flags >> 12) & 1) { namespace K = PoseidonGoldilocksConstants; int k = (flags >> 16) % 12; for (int t = 0; t < 12; t++) if ((flags >> (20 + t)) & 1) { uint64_t coef = ((flags % 4) == 3) ? K::P[t][k].fe : K::M[t][k].fe; v[t] = ref::mul(small[t].first & 0xFFFFFFFFull, ref::inv(coef % PR ? coef : 1)); } }
                         v.push_back(flags); return v; }, g::fe_vec(24), rc::gen::container<std::vector<g::P2>>(12, g::pair_hilo()), g::uni64()); }, body_backsolved, 2, false, desc_perm, 100});
    props.push_back({"c06.partial", [] { return gen_partial(); }, body_partial, 2, false, desc_perm, 100});
    { pbt::PropDef p{"c06.kat", [] { return rc::gen::just(std::vector<uint64_t>{0}); }, body_kat, 0, false, nullptr, 100};
      p.enum_count = [] { return (uint64_t)2; }; p.enum_at = [](uint64_t i) { return std::vector<uint64_t>{i}; }; props.push_back(p); }
    // C07: every length 0..200 exhaustively (several contents each), random lengths up to 5000
    { pbt::PropDef p{"c07.lengths", [] { return rc::gen::just(std::vector<uint64_t>{0, 0}); }, body_linear_hash, 0, false, desc_lh, 100};
      p.enum_count = [] { return (uint64_t)(201 * (g_level >= 1 ? 16 : 4)); }; p.enum_at = [](uint64_t i) { return std::vector<uint64_t>{((i % 201) * 37) % 201 /* every length once per round, in a scrambled order: consecutive calls differ in their residue mod 8 */, pbt::mix(i, 3)}; }; props.push_back(p); }
    { pbt::PropDef p{"c07.huge", [] { return rc::gen::just(std::vector<uint64_t>{(1ull << 24) + 1, 7}); }, body_lh_huge, 0, false, desc_lh, 100};
      p.enum_count = [] { return (uint64_t)(g_level >= 1 ? 4 : 1); }; p.enum_at = [](uint64_t i) { static const uint64_t L[] = {(1ull << 24) + 1, (1ull << 24) + 11, (1ull << 25) + 1, (1ull << 24) + 8}; return std::vector<uint64_t>{L[i % 4], pbt::mix(i, 77)}; }; props.push_back(p); }
    props.push_back({"c07.random", [] { return rc::gen::apply([](uint64_t len, uint64_t seed, std::vector<uint64_t> ex) { std::vector<uint64_t> v{len, seed}; if (ex.size() > len) ex.resize(len); v.insert(v.end(), ex.begin(), ex.end()); return v; },
                         rc::gen::weightedOneOf<uint64_t>({{8, g::range(0, 40)}, {6, g::range(0, 300)}, {2, g::range(0, 5000)},
                                                           {1, rc::gen::apply([](int k, int d) { return (uint64_t)((1ll << k) + d); }, g::irange(9, 16), g::irange(-9, 9))}}), g::uni64(), rc::gen::container<std::vector<uint64_t>>(g::fe())); }, body_linear_hash, 1, false, desc_lh, 40});
    { pbt::PropDef p{"c08.enum", [] { return rc::gen::just(std::vector<uint64_t>{0, 0, 0, 1, 1, 0, 0}); }, body_merkle, 0, true, desc_merkle, 100};
      p.enum_count = [] { return (uint64_t)merkle_space().size(); }; p.enum_at = [](uint64_t i) { return merkle_space()[i]; }; props.push_back(p); }
    // several builds one after the other in ONE process and thread (each case of c08.random runs in a fresh child): scratch storage that a builder
    // keeps between calls must not carry anything from a larger / smaller earlier tree into the next one
    props.push_back({"c08.sequence", [] { return rc::gen::exec([] { std::vector<uint64_t> out; int n = *g::irange(2, 3); int v = *g::irange(0, NVAR - 1);
                         for (int i = 0; i < n; i++) { int lr = *g::irange(0, 4); uint64_t cols = *g::range(0, 60); uint64_t dim = (uint64_t)*g::irange(1, 3); uint64_t batch = *g::range(1, 9);
                             if (*g::irange(0, 3) == 0) v = *g::irange(0, NVAR - 1); // mostly the same builder again
                             std::vector<uint64_t> one{(uint64_t)v, (uint64_t)lr, cols, dim, batch, (uint64_t)*rc::gen::elementOf(std::vector<int>{0, 1, 2, 3}), *g::uni64(), 0}; out.insert(out.end(), one.begin(), one.end()); }
                         return out; }); },
                     [](const Case &c, Ctx &ctx) -> bool { ctx.nt("mt:several-builds-in-one-process"); for (size_t o = 0; o + 8 <= c.v.size(); o += 8) { Case s; s.prop = c.prop; s.v.assign(c.v.begin() + o, c.v.begin() + o + 8); Ctx local; if (!body_merkle(s, local)) return ctx.fail("build #" + std::to_string(o / 8) + " of a sequence in one process: " + desc_merkle(s) + " :: " + local.why); } return true; },
                     0.5, true, nullptr, 100});
    props.push_back({"c08.random", [] { return rc::gen::exec([] {
                         // mostly small trees, regularly medium ones, now and then TALL ones (2^11..2^16 rows, narrow) -- every height occurs
                         int v = *g::irange(0, NVAR - 1); int lr = *rc::gen::weightedOneOf<int>({{50, g::irange(0, 5)}, {10, g::irange(6, g_level >= 1 ? 10 : 8)}, {2, g::irange(9, 16)}});
                         uint64_t cols = *rc::gen::weightedOneOf<uint64_t>({{6, g::range(0, 20)}, {2, g::range(21, 140)}});
                         if (lr > 7 && cols > 20) cols %= 20;
                         if (lr > 10) cols %= 6;
                         uint64_t dim = (uint64_t)*g::irange(1, 3);
                         uint64_t batch = *rc::gen::weightedOneOf<uint64_t>({{5, g::range(1, cols + 3)}, {1, rc::gen::just<uint64_t>(1ull << 20)}, {1, g::range(1, 1ull << 40)}});
                         int nth = *rc::gen::elementOf(std::vector<int>{0, 1, 2, 3, 5, 16, 33});
                         return std::vector<uint64_t>{(uint64_t)v, (uint64_t)lr, cols, dim, batch, (uint64_t)nth, *g::uni64(), (uint64_t)(*rc::gen::weightedElement<int>({{4, 0}, {1, 1}}) | (*g::irange(0, 3) << 1) | (*g::irange(0, 7) << 3))}; }); }, body_merkle, 1, true, desc_merkle, 100});
    for (auto &p : props) if (p.name == "c06.perm" || p.name == "c06.backsolved" || p.name == "c06.partial" || p.name == "c07.random" || p.name == "c08.random") p.mt_ok = true;
    return pbt::harness_main(argc, argv, "h_poseidon", props);
}
#endif // PBT_NO_MAIN
