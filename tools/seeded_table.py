#!/usr/bin/env python3
# prints a markdown table of the seeded changes under /verif/seeded (from their meta.json) for DESIGN.md section 8
import json, glob, os, re
rows = []
for d in sorted(glob.glob('/verif/seeded/*/')):
    try:
        m = json.load(open(os.path.join(d, 'meta.json')))
    except Exception:
        continue
    readme = ''
    try:
        readme = open(os.path.join(d, 'README.md')).read()
    except Exception:
        pass
    title = next((l.strip('# ').strip() for l in readme.splitlines() if l.strip()), '')[:110]
    checks = m.get('checks', {})
    res = ', '.join('%s %s' % (k, 'CAUGHT' if v.get('caught') else 'missed') for k, v in checks.items() if isinstance(v, dict))
    first = {}
    for h in m.get('history', []):
        for k, v in (h.get('checks') or {}).items():
            if isinstance(v, dict) and k not in first:
                first[k] = v.get('caught')
    missed_first = [k for k, v in first.items() if v is False and checks.get(k, {}).get('caught')]
    if missed_first:
        res += ' (first run: %s missed; caught after strengthening)' % ', '.join(missed_first)
    rows.append('| %s | %s | %s | %s | %s |' % (m.get('name'), m.get('property'), title.replace('|', '/'), m.get('demo_reliability', ''), res))
print('| change | breaks | what it is | demo | quick checks (VERIF_SEED=1) |')
print('|---|---|---|---|---|')
print('\n'.join(rows))
