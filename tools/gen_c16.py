#!/usr/bin/env python3
"""Derives the C16 overload table (batched / AVX2 / AVX512 add, sub, mul families of Goldilocks3) from the
function heads in goldilocks_cubic_extension.hpp.  The spec of a row = operation, operand dimensions and
constness from the name (13, 31, 33c, 1c3c, 13c, 31c; default 33), operand storage from the parameter types,
strides from the parameter names.  Output: C++ initialiser rows (c16_table.inc).
Usage: gen_c16.py <goldilocks_cubic_extension.hpp> [--list]"""
import re, sys

HEAD = re.compile(r'^\s*static\s+(?:inline\s+)?void\s+((add|sub|mul)(\d?c?\d?c?)_(batch|avx512|avx))\s*\((.*)\)\s*$')


def split_params(s):
    return [re.sub(r'\s+', ' ', p.strip()) for p in s.split(',')]


def parse(path):
    rows = []
    for ln, line in enumerate(open(path), 1):
        m = HEAD.match(line)
        if not m:
            continue
        name, op, digs, fam, params = m.groups()
        L = 8 if fam == 'avx512' else 4
        mm = re.match(r'^(\d)(c?)(\d)(c?)$', digs) if digs else None
        if digs and not mm:
            print('NAME? %d %s' % (ln, name), file=sys.stderr); continue
        dA, cA, dB, cB = (int(mm.group(1)), bool(mm.group(2)), int(mm.group(3)), bool(mm.group(4))) if mm else (3, False, 3, False)
        ps = split_params(params)
        toks = []   # (kind, name)
        i = 0
        bad = False
        while i < len(ps):
            p = ps[i]
            def reg3s(j):
                return j + 2 < len(ps) and all(re.match(r'^(const )?__m(256|512)i &?\w+%d_$' % t, ps[j + t]) for t in range(3))
            if reg3s(i):
                nm = re.search(r'(\w+)0_$', ps[i]).group(1)
                toks.append(('REG3S', nm, [re.search(r'(\w+)$', ps[i + t]).group(1) for t in range(3)], '&' in ps[i]))
                i += 3; continue
            mm2 = re.match(r'^(const )?(?:Goldilocks3::)?Element_avx(512)? &?(\w+)$', p)
            if mm2:
                toks.append(('REG3', mm2.group(3), None, None)); i += 1; continue
            mm2 = re.match(r'^(const )?__m(256|512)i &(\w+)$', p)
            if mm2:
                toks.append(('REG1', mm2.group(3), None, None)); i += 1; continue
            mm2 = re.match(r'^(const )?Goldilocks::Element \*(\w+)$', p)
            if mm2:
                toks.append(('ARR', mm2.group(2), None, None)); i += 1; continue
            mm2 = re.match(r'^(const )?Goldilocks::Element (\w+)\[3\]$', p)
            if mm2:
                toks.append(('AUXARR', mm2.group(2), None, None)); i += 1; continue
            mm2 = re.match(r'^(const )?Goldilocks::Element (\w+)$', p)
            if mm2:
                toks.append(('SCALAR', mm2.group(2), None, None)); i += 1; continue
            mm2 = re.match(r'^(?:Goldilocks3::)?Element &(\w+)$', p)
            if mm2:
                toks.append(('EXTREF', mm2.group(1), None, None)); i += 1; continue
            mm2 = re.match(r'^(const )?(uint64_t|uint32_t) (\w+)(\[\w*\])?$', p)
            if mm2:
                toks.append(('STRIDE', mm2.group(3), bool(mm2.group(4)), mm2.group(2))); i += 1; continue
            print('PARAM? %d %s : %s' % (ln, name, p), file=sys.stderr); bad = True; break
        if bad:
            continue
        # roles
        out = dict(kind=toks[0][0], name=toks[0][1], stride=None)
        if out['kind'] not in ('ARR', 'REG3', 'REG3S'):
            print('OUT? %d %s' % (ln, line.strip()), file=sys.stderr); continue
        ins = []; aux = None
        args = []
        seq = []
        for t in toks[1:]:
            if t[0] == 'STRIDE':
                seq.append(('stride', t)); continue
            if t[0] == 'AUXARR' or (t[0] == 'REG3S' and t[1].startswith('aux')):
                aux = dict(kind=t[0]); seq.append(('aux', t)); continue
            ins.append(dict(kind=t[0], name=t[1], stride=None)); seq.append(('in', len(ins) - 1))
        if len(ins) != 2:
            print('INS? %d %s' % (ln, line.strip()), file=sys.stderr); continue
        ins[0].update(dim=dA, const=cA, slot='a'); ins[1].update(dim=dB, const=cB, slot='b')
        if aux and aux['kind'] == 'AUXARR':
            ins[1]['const'] = True     # mul_batch(result, a, b, b_[3]): b is one constant element with its precomputed sums
        # strides
        ok = True
        prev_arr = None
        for what, t in [(w, t) for w, t in seq if w == 'stride'] if False else []:
            pass
        lastarr = out if out['kind'] == 'ARR' else None
        for what, t in seq:
            if what == 'in':
                if ins[t]['kind'] == 'ARR':
                    lastarr = ins[t]
                continue
            if what != 'stride':
                continue
            n = t[1].lower()
            if n.endswith('_c'):
                tgt = out
            elif n.endswith('_a') or n.endswith('0'):
                tgt = ins[0]
            elif n.endswith('_b') or n.endswith('1'):
                tgt = ins[1]
            else:
                arrs = [x for x in ins if x['kind'] == 'ARR']
                tgt = arrs[0] if len(arrs) == 1 else None
            if tgt is None or tgt['kind'] != 'ARR' or tgt['stride'] is not None:
                print('STRIDE? %d %s (%s)' % (ln, line.strip(), t[1]), file=sys.stderr); ok = False; break
            tgt['stride'] = 'idx' if t[2] else 'uni'
            tgt['w32'] = (t[3] == 'uint32_t')
        # the stride right after the output array belongs to it (add_avx(c, stride_c, ...)) -- handled by the _c suffix
        if not ok:
            continue
        for x in ins:
            if x['kind'] == 'SCALAR' and x['dim'] != 1:
                print('DIM? %d %s' % (ln, line.strip()), file=sys.stderr)
            if x['kind'] in ('REG3', 'REG3S', 'EXTREF') and x['dim'] != 3:
                print('DIM? %d %s' % (ln, line.strip()), file=sys.stderr)
            if x['kind'] == 'REG1' and x['dim'] != 1:
                print('DIM? %d %s' % (ln, line.strip()), file=sys.stderr)
        def kind(x, isout=False):
            if x['kind'] == 'ARR':
                if not isout and x['const']:
                    return 'S_ARR_CONST'
                return {None: 'S_ARR', 'uni': 'S_ARR_STRIDE', 'idx': 'S_ARR_IDX'}[x['stride']]
            return {'SCALAR': 'S_SCALAR', 'EXTREF': 'S_EXTREF', 'REG1': 'S_REG1', 'REG3': 'S_REG3', 'REG3S': 'S_REG3S'}[x['kind']]
        # call arguments
        for t in toks:
            k = t[0]
            if t is toks[0]:
                args.append({'ARR': 't.c', 'REG3': 't.creg', 'REG3S': 't.creg[0], t.creg[1], t.creg[2]'}[k]); continue
            if k == 'STRIDE':
                n = t[1].lower()
                if n.endswith('_c'): s = 'c'
                elif n.endswith('_a') or n.endswith('0'): s = 'a'
                elif n.endswith('_b') or n.endswith('1'): s = 'b'
                else: s = [x for x in ins if x['kind'] == 'ARR'][0]['slot']
                args.append(('t.i%s' if t[2] else 't.s%s') % s); continue
            if k == 'AUXARR':
                args.append('t.auxarr'); continue
            if k == 'REG3S' and t[1].startswith('aux'):
                args.append('t.auxreg[0], t.auxreg[1], t.auxreg[2]'); continue
            x = next(x for x in ins if x['name'] == t[1])
            s = x['slot']
            args.append({'ARR': 't.%s' % s, 'SCALAR': 't.%ss' % s, 'EXTREF': 't.%sext' % s, 'REG1': 't.%sreg[0]' % s, 'REG3': 't.%sreg' % s,
                         'REG3S': 't.%sreg[0], t.%sreg[1], t.%sreg[2]' % (s, s, s)}[k])
        # in-place variants: the output is the same object as the first / second operand (only where shapes coincide)
        def alias_args(slot):
            x = ins[0] if slot == 'a' else ins[1]
            ok = False
            if out['kind'] in ('REG3', 'REG3S') and x['kind'] == out['kind'] and x['dim'] == 3:
                ok = True
            if out['kind'] == 'ARR' and out['stride'] is None and x['kind'] == 'ARR' and x['stride'] is None and x['dim'] == 3 and not x['const']:
                ok = True
            if not ok:
                return None
            res = list(args)
            res[0] = {'ARR': 't.%s' % slot, 'REG3': 't.%sreg' % slot, 'REG3S': 't.%sreg[0], t.%sreg[1], t.%sreg[2]' % (slot, slot, slot)}[out['kind']]
            return res
        alias_a, alias_b = alias_args('a'), alias_args('b')
        decl = name + '(' + ', '.join(ps) + ')'
        rows.append(dict(line=ln, decl=decl, name=name, op=op, fam=fam, L=L, dA=dA, dB=dB, cA=cA or ins[0]['kind'] in ('SCALAR', 'EXTREF'), cB=ins[1]['const'] or ins[1]['kind'] in ('SCALAR', 'EXTREF'),
                         A=kind(ins[0]), B=kind(ins[1]), C=kind(out, True), aux=('AUX_ARR' if aux and aux['kind'] == 'AUXARR' else 'AUX_REG' if aux else 'AUX_NONE'), args=args, alias_a=alias_a, alias_b=alias_b,
                         w32=(1 if ins[0].get('w32') else 0) | (2 if ins[1].get('w32') else 0) | (4 if out.get('w32') else 0)))
    return rows


if __name__ == '__main__':
    rows = parse(sys.argv[1])
    if '--list' in sys.argv:
        for r in rows:
            print(r['line'], r['decl'][:150], '|', r['dA'], 'c' if r['cA'] else '', r['A'], '|', r['dB'], 'c' if r['cB'] else '', r['B'], '->', r['C'], r['aux'])
        print(len(rows), 'overloads', file=sys.stderr)
        sys.exit(0)
    print('// generated by tools/gen_c16.py from goldilocks_cubic_extension.hpp -- %d overloads' % len(rows))
    for fam in ('batch', 'avx', 'avx512'):
        if fam == 'avx512':
            print('#ifdef __AVX512__')
        for r in rows:
            if r['fam'] != fam:
                continue
            tt = 'T8' if fam == 'avx512' else 'T4'
            call = 'Goldilocks3::%s(%s)' % (r['name'], ', '.join(r['args']))
            def lam(a):
                return 'nullptr' if a is None else '[](TB &tb) { %s &t = static_cast<%s &>(tb); Goldilocks3::%s(%s); }' % (tt, tt, r['name'], ', '.join(a))
            print('{"%s", %d, OP_%s, %d, %d, %s, %s, %d, %s, %s, %s, %s, [](TB &tb) { %s &t = static_cast<%s &>(tb); %s; }, %s, %s, %d},' % (
                r['decl'].replace('Goldilocks::', '').replace('Goldilocks3::', ''), r['line'], r['op'].upper(), r['L'], r['dA'], 'true' if r['cA'] else 'false', r['A'], r['dB'], 'true' if r['cB'] else 'false', r['B'], r['C'], r['aux'], tt, tt, call,
                lam(r['alias_a']), lam(r['alias_b']), r['w32']))
        if fam == 'avx512':
            print('#endif')
