#!/bin/sh
# Soundness sweep: run every registered check on the (unchanged) tree under several VERIF_SEED values.
#   tools/sweep.sh <tier> <seed> [<seed> ...]        evidence goes to $VERIF_EVIDENCE_DIR (set it to a scratch dir!); SWEEP_IDS="C12 C18" restricts / orders the checks
# Prints one line per run; exit status 1 if any run printed VIOLATION or ended non-zero.
cd "$(dirname "$0")/.." || exit 2
tier=$1; shift
bad=0
for seed in "$@"; do
  for id in ${SWEEP_IDS:-C01 C02 C03 C04 C05 C06 C07 C08 C09 C10 C11 C12 C13 C14 C15 C16 C17 C18 C19 C20}; do
    out=$(VERIF_SEED=$seed ./check $id --tier $tier 2>&1); rc=$?
    line=$(printf '%s\n' "$out" | grep -E "^\[$id\]" | tail -1)
    v=$(printf '%s\n' "$out" | grep -c "^VIOLATION")
    echo "seed=$seed $id rc=$rc violations=$v $line"
    if [ $rc -ne 0 ] || [ "$v" -ne 0 ]; then bad=1; printf '%s\n' "$out" | grep -E "VIOLATION|why|note" | head -20; fi
  done
done
exit $bad
