#!/usr/bin/env python3
"""Apply a seeded change to /repo, run the given checks (quick tier) against it, undo the change.
   tools/try_mutant.py <patch.diff> <ID> [<ID> ...] [--tier quick|thorough] [--seed N]
Evidence is redirected (VERIF_EVIDENCE_DIR) so committed evidence is never overwritten.  Prints one line per check:
   <ID> CAUGHT|missed  wall  first VIOLATION line"""
import sys, subprocess, os, time, json
args = sys.argv[1:]
tier = 'quick'; seed = '1'
if '--tier' in args:
    i = args.index('--tier'); tier = args[i + 1]; del args[i:i + 2]
if '--seed' in args:
    i = args.index('--seed'); seed = args[i + 1]; del args[i:i + 2]
patch, ids = args[0], args[1:]
st = subprocess.run(['git', '-C', '/repo', 'status', '--porcelain', '--untracked-files=no'], capture_output=True, text=True).stdout.strip()
if st:
    print('refusing: /repo has local modifications:\n' + st); sys.exit(2)
r = subprocess.run(['git', '-C', '/repo', 'apply', os.path.abspath(patch)], capture_output=True, text=True)
if r.returncode:
    print('patch does not apply: ' + r.stderr); sys.exit(2)
res = {}
try:
    env = dict(os.environ, VERIF_EVIDENCE_DIR='/tmp/ev-mut', VERIF_SEED=seed)
    for pid in ids:
        t0 = time.time()
        p = subprocess.run(['/verif/check', pid, '--tier', tier], capture_output=True, text=True, env=env, cwd='/verif')
        viol = [l for l in p.stdout.splitlines() if l.startswith('VIOLATION')]
        why = [l.strip() for l in p.stderr.splitlines() if l.strip().startswith('why:')]
        res[pid] = dict(caught=bool(viol) and p.returncode == 1, rc=p.returncode, wall=round(time.time() - t0, 1), first=(viol[0] if viol else ''), why=(why[0][:300] if why else ''))
        print('%s %s rc=%d %.0fs %s %s' % (pid, 'CAUGHT' if res[pid]['caught'] else 'missed', p.returncode, res[pid]['wall'], res[pid]['first'], res[pid]['why']), flush=True)
finally:
    subprocess.run(['git', '-C', '/repo', 'checkout', '--', '.'])
print(json.dumps(res))
