#!/usr/bin/env python3
"""Re-run the registered checks against recorded seeded changes and update their meta.json (earlier results move to 'history').
   tools/retest_seeded.py [--tier quick] [--seed N] <name>[:ID,ID...] ...     (default checks: those recorded in meta.json; 'all' = every seeded change)"""
import sys, os, json, subprocess, glob
args = sys.argv[1:]
extra = []
for opt in ('--tier', '--seed'):
    if opt in args:
        i = args.index(opt); extra += args[i:i + 2]; del args[i:i + 2]
names = args
if names == ['all']:
    names = sorted(os.path.basename(d.rstrip('/')) for d in glob.glob('/verif/seeded/*/'))
commit = subprocess.run(['git', '-C', '/verif', 'rev-parse', '--short', 'HEAD'], capture_output=True, text=True).stdout.strip()
summary = []
for spec in names:
    name, _, ids = spec.partition(':')
    d = os.path.join('/verif/seeded', name)
    meta = json.load(open(os.path.join(d, 'meta.json')))
    checks = ids.split(',') if ids else list(meta.get('checks', {}).keys()) or [meta['property']]
    r = subprocess.run(['/verif/tools/try_mutant.py', os.path.join(d, 'patch.diff')] + checks + extra, capture_output=True, text=True)
    try:
        res = json.loads(r.stdout.strip().splitlines()[-1])
    except Exception:
        print(name, 'ERROR', r.stdout[-300:], r.stderr[-300:]); continue
    hist = meta.get('history', [])
    if meta.get('checks'):
        hist.append(dict(verif_commit=meta.get('verif_commit'), checks=meta['checks']))
    merged = dict(meta.get('checks', {})); merged.update(res)
    meta['history'] = hist; meta['checks'] = merged; meta['verif_commit'] = commit
    json.dump(meta, open(os.path.join(d, 'meta.json'), 'w'), indent=1)
    line = '%s: %s' % (name, ', '.join('%s %s' % (k, 'CAUGHT' if v['caught'] else 'missed') for k, v in res.items()))
    print(line, flush=True); summary.append(line)
