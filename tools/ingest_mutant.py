#!/usr/bin/env python3
"""Confirm a seeded change independently and record it under /verif/seeded/<name>/.
   tools/ingest_mutant.py <PROP_ID> <agent mutation dir> <name> [--checks ID,ID,...]
Steps (all in a scratch worktree of /repo under /tmp, removed afterwards):
  1. clean tree: demo builds and PASSES
  2. patch applied: `make -B testcpu && ./testcpu` -> 30 tests pass; demo FAILS
  3. the registered quick checks of the listed properties are run against /repo with the patch applied (then reverted)
Writes patch.diff, demo.cpp, build.sh, README.md (from the author) and meta.json."""
import sys, os, subprocess, shutil, json, re, time
prop, mdir, name = sys.argv[1], sys.argv[2].rstrip('/'), sys.argv[3]
checks = [prop]
if '--checks' in sys.argv:
    checks = sys.argv[sys.argv.index('--checks') + 1].split(',')
agent_wt = os.path.dirname(os.path.dirname(mdir))          # /tmp/mut/Cxx
wt = '/tmp/vw-%s' % name
def sh(cmd, cwd=None, timeout=1800):
    r = subprocess.run(cmd, shell=True, cwd=cwd, capture_output=True, text=True, timeout=timeout)
    return r.returncode, (r.stdout + r.stderr)
subprocess.run(['git', '-C', '/repo', 'worktree', 'remove', '--force', wt], capture_output=True)
rc, out = sh('git -C /repo worktree add -q --detach %s HEAD' % wt)
assert rc == 0, out
meta = dict(property=prop, name=name, source_dir=mdir, confirmed=False)
try:
    build = open(os.path.join(mdir, 'build.sh')).read().replace(agent_wt, wt)
    # same relative location as in the author's worktree (build scripts refer to <worktree>/mutation/<m>/...)
    demo_dir = os.path.join(wt, os.path.relpath(mdir, agent_wt))
    os.makedirs(demo_dir)
    shutil.copy(os.path.join(mdir, 'demo.cpp'), demo_dir)
    for f in os.listdir(mdir):   # helper headers the demo includes
        if f.endswith(('.hpp', '.h', '.inc')):
            shutil.copy(os.path.join(mdir, f), demo_dir)
    open(os.path.join(demo_dir, 'build.sh'), 'w').write(build)
    def run_demo():
        rc, out = sh('sh ./build.sh 2>&1 | tail -5', cwd=demo_dir)
        exe = [f for f in os.listdir(demo_dir) if os.access(os.path.join(demo_dir, f), os.X_OK) and not f.endswith('.sh') and not f.endswith('.cpp')]
        if not exe:
            return None, 'demo did not build: ' + out[-800:]
        res = []
        for _ in range(3):   # three runs: a demo that depends on a schedule may be flaky; record all
            rc2, out2 = sh('OMP_WAIT_POLICY=passive ./%s' % exe[0], cwd=demo_dir, timeout=900)
            res.append(rc2)
        for f in exe:
            os.unlink(os.path.join(demo_dir, f))
        return res, out2[-600:]
    clean_rc, clean_out = run_demo()
    meta['demo_clean_tree'] = dict(exit_codes=clean_rc, tail=clean_out)
    rc, out = sh('git apply %s' % os.path.join(mdir, 'patch.diff'), cwd=wt)
    assert rc == 0, 'patch does not apply: ' + out
    rc, out = sh('git diff --stat', cwd=wt); meta['diffstat'] = out.strip()
    rc, out = sh('make -B testcpu 2>&1 | tail -3 && ./testcpu 2>&1 | tail -3', cwd=wt)
    meta['suite_with_patch'] = out.strip()[-300:]
    suite_ok = '[  PASSED  ] 30 tests' in out
    pat_rc, pat_out = run_demo()
    meta['demo_with_patch'] = dict(exit_codes=pat_rc, tail=pat_out)
    meta['confirmed'] = bool(suite_ok and clean_rc and all(c == 0 for c in clean_rc) and pat_rc and any(c != 0 for c in pat_rc))
    meta['demo_reliability'] = ('%d/3 runs fail with the patch' % sum(1 for c in pat_rc if c != 0)) if pat_rc else 'n/a'
finally:
    subprocess.run(['git', '-C', '/repo', 'worktree', 'remove', '--force', wt], capture_output=True)
    shutil.rmtree(wt, ignore_errors=True)
print(json.dumps(meta, indent=1))
if not meta['confirmed']:
    print('NOT CONFIRMED'); sys.exit(1)
# run my checks
r = subprocess.run([os.path.join(os.path.dirname(os.path.abspath(__file__)), 'try_mutant.py'), os.path.join(mdir, 'patch.diff')] + checks, capture_output=True, text=True)
print(r.stdout[-3000:])
try:
    meta['checks'] = json.loads(r.stdout.strip().splitlines()[-1])
except Exception:
    meta['checks'] = {'error': r.stdout[-500:] + r.stderr[-500:]}
dst = os.path.join('/verif/seeded', name)
os.makedirs(dst, exist_ok=True)
for f in ['patch.diff', 'demo.cpp', 'build.sh', 'README.md'] + [f for f in os.listdir(mdir) if f.endswith(('.hpp', '.h', '.inc'))]:
    if os.path.exists(os.path.join(mdir, f)):
        shutil.copy(os.path.join(mdir, f), dst)
# paths inside build.sh refer to the author's scratch worktree: make them relative to a REPO variable
b = open(os.path.join(dst, 'build.sh')).read().replace(agent_wt, '${REPO:-/repo}')
open(os.path.join(dst, 'build.sh'), 'w').write(b)
meta['what_i_ran'] = ['scratch worktree of /repo HEAD: demo on clean tree (3 runs), git apply patch.diff, make -B testcpu && ./testcpu, demo with patch (3 runs)',
                      'tools/try_mutant.py patch.diff ' + ' '.join(checks) + ' (quick tier, VERIF_SEED=1), /repo reverted afterwards']
# keep earlier results (a change that was missed first and caught after a check was strengthened stays visible)
prev = None
try:
    prev = json.load(open(os.path.join(dst, 'meta.json')))
except Exception:
    pass
hist = (prev or {}).get('history', [])
if prev and prev.get('checks'):
    hist.append(dict(verif_commit=prev.get('verif_commit'), checks=prev['checks']))
meta['history'] = hist
meta['verif_commit'] = subprocess.run(['git', '-C', '/verif', 'rev-parse', '--short', 'HEAD'], capture_output=True, text=True).stdout.strip()
json.dump(meta, open(os.path.join(dst, 'meta.json'), 'w'), indent=1)
print('recorded in', dst)
