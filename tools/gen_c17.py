#!/usr/bin/env python3
"""Derives the C17 overload table (copy/add/sub/mul x batch/avx/avx512 wrappers of Goldilocks) from the
declarations in goldilocks_base_field.hpp.  Spec per overload = operand shapes, read off the parameter
types, order and names.  Output: C++ initialiser rows for harness/h_wrappers.cpp (c17_table.inc).
Usage: gen_c17.py <goldilocks_base_field.hpp> [--list]"""
import re, sys

# declared in the class but never defined anywhere in the library: no body to test (listed in the evidence notes)
UNDEFINED = ['add_batch(Element *result, const Element *in1, const Element *in2, const uint64_t offsets2[4])']

FAM = re.compile(r'^\s*static\s+void\s+((copy|add|sub|mul)_(batch|avx512|avx))\s*\((.*)\)\s*;\s*$')


def parse(path):
    rows = []
    for ln, line in enumerate(open(path), 1):
        if line.strip().startswith('//'):
            continue
        m = FAM.match(line)
        if not m:
            continue
        name, op, fam, params = m.group(1), m.group(2), m.group(3), m.group(4)
        L = 8 if fam == 'avx512' else 4
        ps = [p.strip() for p in params.split(',')]
        out = None          # ('reg'|'arr')
        ins = []            # list of dict(kind, name, letter)
        strides = []        # (pos, name, is_array)
        args = []
        order = []          # sequence of ('out'|'in'|'stride', index)
        ok = True
        for i, p in enumerate(ps):
            p = re.sub(r'\s+', ' ', p)
            mm = re.match(r'^(const )?(uint64_t) (\w+)(\[\w*\])?$', p)
            if mm:
                strides.append(dict(pos=i, name=mm.group(3), arr=bool(mm.group(4))))
                order.append(('stride', len(strides) - 1))
                continue
            mm = re.match(r'^(const )?(Goldilocks::)?Element \*(\w+)$', p)
            if mm:
                if not mm.group(1) and out is None and not ins:
                    out = dict(kind='arr', name=mm.group(3)); order.append(('out', 0))
                else:
                    ins.append(dict(kind='arr', name=mm.group(3))); order.append(('in', len(ins) - 1))
                continue
            mm = re.match(r'^(const )?(Goldilocks::)?Element &?(\w+)$', p)
            if mm:
                ins.append(dict(kind='scalar', name=mm.group(3))); order.append(('in', len(ins) - 1))
                continue
            mm = re.match(r'^(const )?__m(256|512)i &(\w+)$', p)
            if mm:
                if not mm.group(1) and out is None and not ins:
                    out = dict(kind='reg', name=mm.group(3)); order.append(('out', 0))
                else:
                    ins.append(dict(kind='reg', name=mm.group(3))); order.append(('in', len(ins) - 1))
                continue
            ok = False
        if not ok or out is None:
            print('UNPARSED line %d: %s' % (ln, line.strip()), file=sys.stderr)
            continue
        # operand letters
        def letter(n):
            n = n.lower()
            if n.startswith('a') or n.startswith('in1'):
                return 'a'
            if n.startswith('b') or n.startswith('in2'):
                return 'b'
            if n.startswith('src'):
                return 'a'
            return '?'
        for k, x in enumerate(ins):
            x['letter'] = letter(x['name'])
            x['slot'] = 'ab'[k] if k < 2 else '?'
            x['stride'] = None
        out['stride'] = None
        # attach strides
        for s in strides:
            n = s['name'].lower()
            tgt = None
            if n.endswith('_dst') or n.endswith('_c'):
                tgt = out
            elif n.endswith('_a') or n.endswith('1'):
                tgt = next((x for x in ins if x['letter'] == 'a'), None)
            elif n.endswith('_b') or n.endswith('2'):
                tgt = next((x for x in ins if x['letter'] == 'b'), None)
            else:
                # positional: belongs to the array parameter immediately before it
                prev = ps[s['pos'] - 1] if s['pos'] > 0 else ''
                pm = re.search(r'(\w+)$', prev)
                pn = pm.group(1) if pm else ''
                if out['name'] == pn:
                    tgt = out
                else:
                    tgt = next((x for x in ins if x['name'] == pn), None)
            if tgt is None or tgt['kind'] != 'arr' or tgt['stride'] is not None:
                print('STRIDE? line %d: %s (%s)' % (ln, line.strip(), s['name']), file=sys.stderr)
                ok = False
                break
            tgt['stride'] = 'idx' if s['arr'] else 'uni'
            s['tgt'] = 'c' if tgt is out else tgt['slot']
        if not ok:
            continue
        if any(x['letter'] != x['slot'] for x in ins):
            print('ORDER? line %d: %s' % (ln, line.strip()), file=sys.stderr)
        def kind(x):
            if x['kind'] == 'arr':
                return {None: 'K_ARR_UNIT', 'uni': 'K_ARR_STRIDE', 'idx': 'K_ARR_IDX'}[x['stride']]
            return {'scalar': 'K_SCALAR', 'reg': 'K_REG'}[x['kind']]
        A = kind(ins[0]) if len(ins) > 0 else 'K_NONE'
        B = kind(ins[1]) if len(ins) > 1 else 'K_NONE'
        C = kind(out)
        # call arguments in declaration order
        for what, idx in order:
            if what == 'out':
                args.append('t.creg' if out['kind'] == 'reg' else 't.c')
            elif what == 'in':
                x = ins[idx]; s = x['slot']
                args.append({'arr': 't.%s' % s, 'scalar': '(*t.p%ss)' % s, 'reg': 't.%sreg' % s}[x['kind']])
            else:
                s = strides[idx]
                args.append(('t.i%s' if s['arr'] else 't.s%s') % s['tgt'])
        if re.sub(r'\s+', ' ', line.strip()).replace('static void ', '').rstrip(';') in UNDEFINED:
            continue
        rows.append(dict(line=ln, decl=re.sub(r'\s+', ' ', line.strip()).replace('static void ', '').rstrip(';'), name=name, op=op, fam=fam, L=L, A=A, B=B, C=C, args=args))
    return rows


if __name__ == '__main__':
    rows = parse(sys.argv[1])
    if '--list' in sys.argv:
        for r in rows:
            print(r['line'], r['decl'], '|', r['A'], r['B'], '->', r['C'], '|', ', '.join(r['args']))
        print(len(rows), 'overloads', file=sys.stderr)
        sys.exit(0)
    print('// generated by tools/gen_c17.py from goldilocks_base_field.hpp -- %d overloads' % len(rows))
    for fam in ('batch', 'avx', 'avx512'):
        if fam == 'avx512':
            print('#ifdef __AVX512__')
        for r in rows:
            if r['fam'] != fam:
                continue
            call = 'Goldilocks::%s(%s)' % (r['name'], ', '.join(r['args']))
            tt = {'batch': 'T4', 'avx': 'T4', 'avx512': 'T8'}[fam]
            # in-place register forms: the result register is the first / second register operand
            def alias(which):
                reg = 't.%sreg' % which
                if r['C'] != 'K_REG' or r[which.upper()] != 'K_REG' or reg not in r['args']:
                    return 'nullptr'
                args2 = [reg if a == 't.creg' else a for a in r['args']]
                return '[](TB &tb) { %s &t = static_cast<%s &>(tb); Goldilocks::%s(%s); }' % (tt, tt, r['name'], ', '.join(args2))
            print('{"%s", %d, OP_%s, %d, %s, %s, %s, [](TB &tb) { %s &t = static_cast<%s &>(tb); %s; }, %s, %s},' % (r['decl'], r['line'], r['op'].upper(), r['L'], r['A'], r['B'], r['C'], tt, tt, call, alias('a'), alias('b')))
        if fam == 'avx512':
            print('#endif')
