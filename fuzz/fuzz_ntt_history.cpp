// libFuzzer target for C19 (and C03-C05, C18 under ASan/UBSan): byte string -> call history on ONE transform object.
// Grammar (FuzzedDataProvider): log max domain, thread count, then commands {NTT, INTT, extendPol} x log size x
// extension bits x ncols x nphase x nblock x destination mode x buffer.  Oracle inside the target: every call's output is
// bit-identical to the same call on a freshly constructed object and equals the reference DFT / LDE.
// All state is rebuilt per input; nothing leaks between iterations.
#include <fuzzer/FuzzedDataProvider.h>
#include "../engine/ref.hpp"
#include "goldilocks_base_field.hpp"
#include "ntt_goldilocks.hpp"
#include <cstdio>
#include <cstdlib>
#include <string>
#include <vector>
typedef Goldilocks::Element E;
static const uint64_t PRm = ref::PR;
static uint64_t n_exec = 0, n_calls = 0, n_multi = 0, n_two_ext = 0;
static void dump() { if (const char *p = getenv("FUZZ_STATS")) { FILE *f = fopen(p, "w"); if (f) { fprintf(f, "{\"executions\":%llu,\"transform_calls\":%llu,\"histories_with_2+_calls\":%llu,\"histories_with_two_extendPol_sizes\":%llu}\n", (unsigned long long)n_exec, (unsigned long long)n_calls, (unsigned long long)n_multi, (unsigned long long)n_two_ext); fclose(f); } } }
static void fail(const std::string &msg) { fprintf(stderr, "PROPERTY-VIOLATION C19: %s\n", msg.c_str()); dump(); __builtin_trap(); }
extern "C" int LLVMFuzzerInitialize(int *, char ***) { atexit(dump); return 0; }
static uint64_t mixv(uint64_t a, uint64_t b) { uint64_t z = a * 0x9E3779B97F4A7C15ull + b; z = (z ^ (z >> 30)) * 0xBF58476D1CE4E5B9ull; return z ^ (z >> 27); }
struct Cmd { int kind, ln, le; uint64_t ncols, nphase, nblock; int dst, buf; uint64_t seed; };
static std::vector<uint64_t> run(NTT_Goldilocks &g, const Cmd &c, std::vector<std::vector<uint64_t>> *in_out)
{
    uint64_t n = 1ull << c.ln, next = 1ull << c.le, rows_out = c.kind == 2 ? next : n;
    bool inplace = c.dst != 1;
    uint64_t rows_src = (c.kind == 2 && inplace) ? rows_out : n;
    E *src = (E *)malloc(rows_src * c.ncols * sizeof(E));
    std::vector<std::vector<uint64_t>> in(c.ncols, std::vector<uint64_t>(n));
    for (uint64_t j = 0; j < n; j++) for (uint64_t col = 0; col < c.ncols; col++) { uint64_t h = mixv(c.seed, j * c.ncols + col); uint64_t x = (h & 7) == 0 ? PRm + (h >> 40) : (h & 7) == 1 ? (h >> 60) : h; in[col][j] = x; src[j * c.ncols + col].fe = x; }
    for (uint64_t i = n * c.ncols; i < rows_src * c.ncols; i++) src[i].fe = 0xDEAD0000 + i;
    E *other = c.dst == 1 ? (E *)malloc(rows_out * c.ncols * sizeof(E)) : nullptr;
    E *buf = c.buf ? (E *)malloc(rows_out * c.ncols * sizeof(E)) : nullptr;
    E *dstarg = c.dst == 0 ? src : c.dst == 1 ? other : nullptr;
    E *out = c.dst == 1 ? other : src;
    if (c.kind == 0) g.NTT(dstarg, src, n, c.ncols, buf, c.nphase, c.nblock);
    else if (c.kind == 1) g.INTT(dstarg, src, n, c.ncols, buf, c.nphase, c.nblock);
    else g.extendPol(out, src, next, n, c.ncols, buf, c.nphase, c.nblock);
    std::vector<uint64_t> raw(rows_out * c.ncols);
    for (size_t i = 0; i < raw.size(); i++) raw[i] = out[i].fe;
    if (in_out) *in_out = in;
    free(src); free(other); free(buf);
    return raw;
}
extern "C" int LLVMFuzzerTestOneInput(const uint8_t *data, size_t size)
{
    FuzzedDataProvider fdp(data, size);
    n_exec++;
    int lm = fdp.ConsumeIntegralInRange<int>(0, 6);
    int nth = fdp.PickValueInArray({0, 1, 2, 3});
    NTT_Goldilocks shared(1ull << lm, nth);
    int ncmd = 0, lastN = -1; bool two = false;
    while (fdp.remaining_bytes() > 0 && ncmd < 6) {
        Cmd c;
        c.kind = fdp.ConsumeIntegralInRange<int>(0, 2);
        c.ln = fdp.ConsumeIntegralInRange<int>(0, lm);
        c.le = c.kind == 2 ? c.ln + fdp.ConsumeIntegralInRange<int>(0, 2) : c.ln;
        c.ncols = fdp.ConsumeIntegralInRange<int>(1, 3);
        static const uint64_t PH[] = {0, 1, 2, 3, 4, 5, 6, 7, 64, UINT64_MAX}, BL[] = {0, 1, 2, 3, 4, 3000, UINT64_MAX};
        c.nphase = fdp.PickValueInArray(PH); c.nblock = fdp.PickValueInArray(BL);
        c.dst = fdp.ConsumeIntegralInRange<int>(0, c.kind == 2 ? 1 : 2);
        c.buf = fdp.ConsumeBool();
        c.seed = fdp.ConsumeIntegral<uint32_t>();
        ncmd++; n_calls++;
        if (c.kind == 2) { if (lastN >= 0 && lastN != c.ln) two = true; lastN = c.ln; }
        std::vector<std::vector<uint64_t>> in;
        std::vector<uint64_t> a = run(shared, c, &in);
        NTT_Goldilocks fresh(1ull << lm, nth);
        std::vector<uint64_t> b = run(fresh, c, nullptr);
        std::string tag = "call #" + std::to_string(ncmd) + " kind=" + std::to_string(c.kind) + " n=2^" + std::to_string(c.ln) + " next=2^" + std::to_string(c.le) + " ncols=" + std::to_string(c.ncols) + " nphase=" + std::to_string(c.nphase) + " nblock=" + std::to_string(c.nblock) + " dst=" + std::to_string(c.dst) + " buf=" + std::to_string(c.buf) + " maxDomain=2^" + std::to_string(lm);
        if (a != b) fail(tag + ": result on the shared object differs from a fresh object");
        // mathematical oracle
        uint64_t n = 1ull << c.ln, w = Goldilocks::toU64(Goldilocks::w(c.ln));
        for (uint64_t col = 0; col < c.ncols; col++) {
            std::vector<uint64_t> want;
            if (c.kind == 0) want = ref::dft_naive(in[col], w, 1);
            else if (c.kind == 1) want = ref::dft_naive(in[col], ref::inv(w), ref::inv(n % PRm));
            else {
                std::vector<uint64_t> coef = ref::dft_naive(in[col], ref::inv(w), ref::inv(n % PRm)), sh(1ull << c.le, 0);
                uint64_t s = 1; for (uint64_t j = 0; j < n; j++) { sh[j] = ref::mul(coef[j], s); s = ref::mul(s, 7); }
                want = ref::dft_naive(sh, Goldilocks::toU64(Goldilocks::w(c.le)), 1);
            }
            for (uint64_t k = 0; k < want.size(); k++) if (a[k * c.ncols + col] % PRm != want[k]) fail(tag + ": wrong value at row " + std::to_string(k) + " col " + std::to_string(col));
        }
    }
    if (ncmd >= 2) n_multi++;
    if (two) n_two_ext++;
    return 0;
}
