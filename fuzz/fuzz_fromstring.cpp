// libFuzzer target for C15: string -> field conversion is total on everything GMP parses and rejects the rest cleanly.
// bytes -> (radix, flags, text).  Oracle inside the target: GMP's own parser decides validity; a valid integer must map to
// its floor residue mod p (fromString and, via mpz, fromScalar); an invalid string must raise std::invalid_argument.
#include <fuzzer/FuzzedDataProvider.h>
#include "goldilocks_base_field.hpp"
#include <gmpxx.h>
#include <cstdio>
#include <cstdlib>
#include <string>
static const uint64_t PRm = 0xFFFFFFFF00000001ULL;
static uint64_t n_exec = 0, n_valid = 0, n_neg = 0, n_big = 0, n_invalid = 0;
static void dump() { if (const char *p = getenv("FUZZ_STATS")) { FILE *f = fopen(p, "w"); if (f) { fprintf(f, "{\"executions\":%llu,\"valid_integers\":%llu,\"negative\":%llu,\"wider_than_64_bits\":%llu,\"rejected_strings\":%llu}\n", (unsigned long long)n_exec, (unsigned long long)n_valid, (unsigned long long)n_neg, (unsigned long long)n_big, (unsigned long long)n_invalid); fclose(f); } } }
static void fail(const std::string &msg) { fprintf(stderr, "PROPERTY-VIOLATION C15: %s\n", msg.c_str()); dump(); __builtin_trap(); }
extern "C" int LLVMFuzzerInitialize(int *, char ***) { atexit(dump); return 0; }
extern "C" int LLVMFuzzerTestOneInput(const uint8_t *data, size_t size)
{
    FuzzedDataProvider fdp(data, size);
    int radix = fdp.ConsumeIntegralInRange<int>(2, 36);
    std::string s = fdp.ConsumeRemainingBytesAsString();
    if (s.size() > 400) s.resize(400);
    if (s.find('\0') != std::string::npos) s = s.substr(0, s.find('\0')); // C string semantics of the GMP parser
    n_exec++;
    mpz_t z; mpz_init(z);
    bool valid = mpz_set_str(z, s.c_str(), radix) == 0;
    uint64_t want = 0;
    if (valid) {
        n_valid++;
        if (mpz_sgn(z) < 0) n_neg++;
        if (mpz_sizeinbase(z, 2) > 64) n_big++;
        mpz_t m, P; mpz_init(m); mpz_init(P); uint64_t pr = PRm; mpz_import(P, 1, 1, 8, 0, 0, &pr);
        mpz_fdiv_r(m, z, P);
        size_t cnt = 0; mpz_export(&want, &cnt, 1, 8, 0, 0, m); if (!cnt) want = 0;
        mpz_clear(m); mpz_clear(P);
    } else n_invalid++;
    bool threw = false; Goldilocks::Element e = {0};
    try { e = Goldilocks::fromString(s, radix); } catch (const std::invalid_argument &) { threw = true; }
    if (valid && threw) fail("fromString rejected \"" + s + "\" (radix " + std::to_string(radix) + ") which GMP parses");
    if (!valid && !threw) fail("fromString accepted \"" + s + "\" (radix " + std::to_string(radix) + ") which is not an integer");
    if (valid) {
        if (Goldilocks::toU64(e) != want) fail("fromString(\"" + s + "\", " + std::to_string(radix) + ") = " + std::to_string(Goldilocks::toU64(e)) + ", residue is " + std::to_string(want));
        mpz_class zz(z);
        if (Goldilocks::toU64(Goldilocks::fromScalar(zz)) != want) fail("fromScalar differs from the residue for " + s);
        // out and back: the canonical string of the element parses to the same element
        std::string t = Goldilocks::toString(e, radix);
        if (Goldilocks::toU64(Goldilocks::fromString(t, radix)) != want) fail("toString/fromString round trip for " + s);
    }
    mpz_clear(z);
    return 0;
}
