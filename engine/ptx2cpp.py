#!/usr/bin/env python3
"""PTX-subset -> host C++ translator for gl64_t.cuh (C20).

Rewrites every  asm("<ptx>" : outs : ins);  statement of the CUDA header into host C++ that calls the PTX_* macros of
engine/ptx_sem.hpp (a 25-instruction semantic table: add/sub with and without .cc, addc/subc, mul.lo/hi, mad/madc lo/hi,
setp, selp, predicated instructions, mov.b64 pack, scoped .reg.pred).  Everything else in the header (operators, to()/from(),
reduce) is left untouched and compiled with empty __device__ macros.  An instruction outside the subset makes the translator
stop with exit status 2 ("unsupported") -- no verdict is produced in that case.

Also extracts the device tables omegas / omegas_inv / domain_size_inverse from ntt_goldilocks.cuh as plain C++ arrays.

Usage: ptx2cpp.py <gl64_t.cuh> <ntt_goldilocks.cuh> <outdir>     (writes gl64_host.hpp and gl64_tables.inc)"""
import re, sys, os
KNOWN = {'add.u64','sub.u64','sub.u32','add.cc.u64','sub.cc.u64','add.cc.u32','addc.u32','addc.cc.u32','sub.cc.u32','subc.u32','subc.cc.u32',
         'mul.lo.u32','mul.hi.u32','mad.lo.cc.u32','madc.lo.cc.u32','madc.hi.cc.u32','madc.hi.u32','mov.b64','selp.u64','setp.eq.u32','setp.ne.u32','setp.ne.s32',
         # plain / other-width variants of the same families (not used by the shipped header; a small edit of it may introduce them)
         'add.u32','mad.lo.u32','mad.hi.u32','mad.hi.cc.u32','madc.lo.u32','addc.u64','addc.cc.u64','subc.u64','subc.cc.u64','mul.lo.u64','mul.hi.u64',
         'setp.eq.s32','setp.eq.u64','setp.ne.u64','setp.lt.u32','setp.ge.u32','setp.lt.u64','setp.ge.u64','selp.u32','mov.u32','mov.b32','mov.u64'}
src = open(sys.argv[1]).read()

def find_asm(s, start):
    m = re.compile(r'\basm\s*\(').search(s, start)
    if not m: return None
    i = m.end(); depth = 1; instr = False
    while depth:
        c = s[i]
        if instr:
            if c == '\\': i += 1
            elif c == '"': instr = False
        else:
            if c == '"': instr = True
            elif c == '(': depth += 1
            elif c == ')': depth -= 1
        i += 1
    # expect ;
    j = i
    while s[j] in ' \t\n': j += 1
    assert s[j] == ';', s[m.start():j+20]
    return m.start(), m.end(), i-1, j+1

def split_top(body):
    # split on ':' at depth 0 outside strings
    parts=[]; cur=''; depth=0; instr=False; i=0
    while i < len(body):
        c=body[i]
        if instr:
            cur+=c
            if c=='\\': cur+=body[i+1]; i+=1
            elif c=='"': instr=False
        else:
            if c=='"': instr=True; cur+=c
            elif c=='(' : depth+=1; cur+=c
            elif c==')' : depth-=1; cur+=c
            elif c==':' and depth==0 and body[i:i+2]!='::' and (i==0 or body[i-1]!=':'):
                parts.append(cur); cur=''
            elif c==':' and depth==0 and body[i:i+2]=='::' :
                # '::' could be "empty outputs" (asm("..." :: "r"(x))) or a scope operator
                # scope operator only appears inside parens here, so treat as two separators
                parts.append(cur); parts.append(''); cur=''; i+=1
            else: cur+=c
        i+=1
    parts.append(cur); return parts

def operands(txt):
    ops=[]; i=0
    for m in re.finditer(r'"([^"]*)"\s*\(', txt):
        if m.start() < i: continue
        j=m.end(); depth=1
        while depth:
            if txt[j]=='(': depth+=1
            elif txt[j]==')': depth-=1
            j+=1
        ops.append((m.group(1), txt[m.end():j-1].strip())); i=j
    return ops

W={'l':64,'r':32}
def xlate(ptx, outs, ins, uid):
    allops = outs+ins
    pre=[]; post=[]; names=[]
    for k,(c,e) in enumerate(allops):
        w = W[c[-1]]; t = 'uint%d_t'%w; n='_o%d_%d'%(uid,k); names.append((n,w))
        if k < len(outs):
            if c[0]=='+': pre.append('%s %s = (%s)(%s);'%(t,n,t,e))
            else: pre.append('%s %s = 0;'%(t,n))
            post.append('%s = %s;'%(e,n))
        else:
            pre.append('const %s %s = (%s)(%s);'%(t,n,t,e))
    def opnd(tok):
        tok=tok.strip()
        m=re.fullmatch(r'%(\d+)',tok)
        if m: return names[int(m.group(1))][0]
        if re.fullmatch(r'-?\d+',tok) or re.fullmatch(r'0x[0-9a-fA-F]+',tok): return '(%sULL)'%tok if not tok.startswith('-') else '((uint64_t)%sLL)'%tok
        if tok.startswith('%'): return 'ptxp_'+tok[1:]
        raise Exception('operand '+tok)
    body=[]
    for ins_ in [x.strip() for x in ptx.split(';') if x.strip()]:
        guard=None
        if ins_ == '{' : body.append('{'); continue
        if ins_ == '}' : body.append('}'); continue
        if ins_.startswith('{'):
            body.append('{'); ins_=ins_[1:].strip()
        m=re.match(r'\.reg\.pred\s+%(\w+)$', ins_)
        if m: body.append('bool ptxp_%s = false; (void)ptxp_%s;'%(m.group(1),m.group(1))); continue
        m=re.match(r'@%(\w+)\s+(.*)$', ins_)
        if m: guard='ptxp_'+m.group(1); ins_=m.group(2)
        if ins_=='trap': stmt='ptx_trap();'
        else:
            mm=re.match(r'([\w.]+)\s+(.*)$', ins_); op=mm.group(1); args=mm.group(2)
            if op not in KNOWN:
                sys.stderr.write('ptx2cpp: unsupported PTX instruction %r\n' % op); sys.exit(2)
            if op=='mov.b64' and '{' in args:
                d,rest=args.split(',',1); lo,hi=rest.strip().strip('{}').split(',')
                stmt='%s = (uint64_t)(uint32_t)%s | ((uint64_t)(uint32_t)%s << 32);'%(opnd(d),opnd(lo),opnd(hi))
            else:
                a=[opnd(x) for x in args.split(',')]
                stmt='PTX_%s(%s);'%(op.replace('.','_'), ', '.join(a))
        body.append(('if (%s) { %s }'%(guard,stmt)) if guard else stmt)
    # scoping: statements that open/close a brace must not be wrapped
    if body and (body[0]=='{' or body[-1]=='}') and not (body[0]=='{' and body[-1]=='}'):
        assert not allops
        return ' '.join(body)
    return '{ '+' '.join(pre)+' '+' '.join(body)+' '+' '.join(post)+' }'

out=[]; pos=0; uid=0
while True:
    r=find_asm(src,pos)
    if not r: out.append(src[pos:]); break
    a,b,c,d=r
    # skip the '# define asm' lines
    line_start = src.rfind('\n',0,a)+1
    if src[line_start:a].lstrip().startswith('#'):
        out.append(src[pos:d]); pos=d; continue
    out.append(src[pos:a])
    parts=split_top(src[b:c])
    strs=re.findall(r'"((?:[^"\\]|\\.)*)"', parts[0]); ptx=''.join(strs)
    outs=operands(parts[1]) if len(parts)>1 else []
    ins=operands(parts[2]) if len(parts)>2 else []
    out.append(xlate(ptx,outs,ins,uid)); uid+=1
    pos=d
res=''.join(out)
res=re.sub(r'#\s*define\s+asm\s+.*','',res)
outdir = sys.argv[3]
open(os.path.join(outdir, 'gl64_host.hpp'), 'w').write(res)

# ---- device tables -------------------------------------------------------------------------
t = open(sys.argv[2]).read()
out = []
for name in ('omegas', 'omegas_inv', 'domain_size_inverse'):
    m = re.search(r'uint64_t\s+%s\s*\[\s*(\d+)\s*\]\s*=\s*\{(.*?)\};' % name, t, re.S)
    if not m:
        sys.stderr.write('ptx2cpp: table %s not found\n' % name); sys.exit(2)
    vals = [v.strip() for v in re.sub(r'//.*', '', m.group(2)).split(',') if v.strip()]
    out.append('static const uint64_t GPU_%s[] = {%s};\nstatic const int GPU_%s_declared = %s;' % (name, ', '.join(v if v.upper().endswith('ULL') else v + 'ULL' for v in vals), name, m.group(1)))
open(os.path.join(outdir, 'gl64_tables.inc'), 'w').write('\n'.join(out) + '\n')
