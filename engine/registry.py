# Registry: build configurations, harnesses and the jobs that decide each property.
# (Read by ./check; keep it declarative.)

BASE = '-std=gnu++17 -Wno-unused -fopenmp'
SAN = '-O1 -g -fno-omit-frame-pointer -fsanitize=address,undefined -fno-sanitize-recover=undefined'
ASAN_ENV = {'ASAN_OPTIONS': 'detect_leaks=1:alloc_dealloc_mismatch=1:abort_on_error=1:detect_stack_use_after_return=0',
            'UBSAN_OPTIONS': 'print_stacktrace=1:halt_on_error=1'}

CFGS = {
    # the Makefile's flags (testcpu): g++ -O3 -mavx2 -fopenmp, asserts live
    'fast2': dict(cxx='g++', cflags=BASE + ' -O3 -mavx2', ldflags='-fopenmp'),
    # the configuration the shipped suite never compiles
    'fast5': dict(cxx='g++', cflags=BASE + ' -O3 -mavx2 -mavx512f -D__AVX512__', ldflags='-fopenmp', needs_avx512=True),
    'san2': dict(cxx='g++', cflags=BASE + ' -mavx2 ' + SAN, ldflags='-fopenmp -fsanitize=address,undefined', env=ASAN_ENV),
    'san5': dict(cxx='g++', cflags=BASE + ' -mavx2 -mavx512f -D__AVX512__ ' + SAN, ldflags='-fopenmp -fsanitize=address,undefined', env=ASAN_ENV, needs_avx512=True),
    # OpenMP regions compiled by g++ but executed by our runtime stand-in (harness owns the schedule)
    'shim2': dict(cxx='g++', cflags=BASE + ' -O2 -mavx2', ldflags='-pthread', link_src=['engine/ompshim.cpp']),
    'shim5': dict(cxx='g++', cflags=BASE + ' -O2 -mavx2 -mavx512f -D__AVX512__', ldflags='-pthread', link_src=['engine/ompshim.cpp'], needs_avx512=True),
    'tsan2': dict(cxx='g++', cflags=BASE + ' -O1 -g -mavx2 -fsanitize=thread', ldflags='-pthread -fsanitize=thread', link_src=['engine/ompshim.cpp'],
                  env={'TSAN_OPTIONS': 'halt_on_error=1:abort_on_error=1:report_signal_unsafe=0'}),
}

HARNESSES = {
    'h_c01': dict(src='h_c01.cpp'),
}


def J(harness, cfg, quick, thorough, only=None, wq=8, wt=16, **kw):
    d = dict(harness=harness, cfg=cfg, cases=dict(quick=quick, thorough=thorough), workers=dict(quick=wq, thorough=wt))
    if only:
        d['only'] = only
    d.update(kw)
    return d


PROPS = {}
NOT_APPLICABLE = {}   # property id -> reason (only for properties this technique cannot decide)
HOOK_COMMITS = []     # no guarded hooks in /repo

PROPS['C01'] = dict(
    title='Scalar field ops are exact mod p on every 64-bit representation',
    level='exploration',
    jobs=[J('h_c01', 'fast2', 16_000_000, 1_600_000_000)],
    rule='rapidcheck-generated (a,b[,alias]) per op from boundary classes (canonical edges, non-canonical band [p,2^64), 32-bit hi/lo patterns, 2^k+-d) '
         'and SOLVED second operands (sum/difference next to 2^64, p, 2^64+p; product residue next to 0, 2^32, p; product high word on 32-bit edge patterns). '
         'Oracle: (a op b) mod p in unsigned __int128, cross-checked with GMP on every case. A case is non-trivial when an operand is non-canonical, '
         'an alias pattern is used, or the carry-chain model says a correction path fires (first/second carry, borrow, final borrow of mul, inc/dec branches). '
         'distinct = distinct (op,a,b,alias) tuples among non-trivial cases (hash set, capped per worker).',
    expected_classes=['add:first-carry', 'add:second-carry', 'sub:first-borrow', 'sub:second-borrow', 'mul:carry-after-fold', 'mul:final-borrow',
                      'inc:p-2', 'inc:p-1->0', 'dec:0->p-1', 'dec:p', 'alias:out==a', 'alias:out==b', 'alias:a==b', 'alias:all-same', 'mulScalar:scalar>=p'],
    technique='rapidcheck property-based testing: boundary/solved-operand generators vs u128+GMP reference oracle, metamorphic residue-class relation',
    level_text='Generated-input search (16M cases quick, 1.6G thorough) over constructed boundary classes with an independent exact oracle; every carry/borrow correction path is hit thousands of times and counted. Not a proof: the 2^128 operand space is sampled through constructed windows.',
    level_note='Trusted: unsigned __int128 % and GMP (cross-checked on every case); g++ -O3 -mavx2 build as shipped. A defect keyed on a value outside all generated classes stays invisible.',
    assumptions=['reference arithmetic: unsigned __int128 with % and GMP mpz (cross-checked against each other)',
                 'build flags of the shipped test target (g++ -O3 -mavx2 -fopenmp, asserts live)'],
)

HARNESSES['h_lanes'] = dict(src='h_lanes.cpp')

_LANE_RULE = ('rapidcheck-generated register contents: every lane gets its own (a,b) from the boundary / solved-operand pair generator of the kernel\'s scalar counterpart '
              '(documented operand restrictions applied by construction: shifted / canonical first operand, b<=0xFFFFFFFF00000000, b<2^8, c_h<2^32, canonical b). '
              'Oracle per lane: u128 reference (field result compared canonically; exact integer equality for 128/72-bit products; exact value <p for canonicalise). '
              'Non-trivial: some lane reaches a mask/correction path (operand >= p, wrap in add, borrow in sub, equal high halves in the 32-bit compare, reduction wrap/borrow, raw result >= p). '
              'distinct = distinct full register contents among non-trivial cases.')
_LANE_CLASSES = ['lane:a>=p', 'lane:add-wrap', 'lane:b>=p', 'lane:sub-borrow', 'lane:equal-high-halves', 'lane:reduce-borrow', 'lane:reduce-wrap', 'lane:raw-result>=p', 'lane:c_l>=p', 'lane:product-128']

PROPS['C02'] = dict(
    title='AVX2 lane kernels equal the scalar field op in every lane, every input',
    jobs=[J('h_lanes', 'fast2', 6_000_000, 800_000_000, only='c02'),
          J('h_lanes', 'fast5', 1_000_000, 200_000_000, only='c02', tiers=['thorough'], class_prefix='avx512-build:')],
    rule=_LANE_RULE, expected_classes=_LANE_CLASSES,
    technique='rapidcheck property-based testing: per-lane boundary/solved-operand generators vs u128 reference oracle (differential against the scalar semantics)',
    level_text='Generated-input search over all 16 AVX2 lane kernels with per-lane independent operands constructed to reach every mask path; exact oracle. Sampling, not proof.',
    level_note='Trusted: u128 reference; the CPU executes AVX2 as specified. Operand assumptions are taken from the kernel comments.',
    assumptions=['kernel operand assumptions as documented in the header comments', 'u128 reference arithmetic'],
)
PROPS['C11'] = dict(
    title='AVX512 lane kernels equal the scalar field op in every lane, every input',
    jobs=[J('h_lanes', 'fast5', 6_000_000, 800_000_000, only='c11')],
    rule=_LANE_RULE, expected_classes=_LANE_CLASSES,
    technique='rapidcheck property-based testing on the -D__AVX512__ build: per-lane boundary/solved-operand generators vs u128 reference oracle',
    level_text='Generated-input search over all 13 AVX512 lane kernels on AVX512F hardware (the configuration the shipped suite never compiles); exact oracle. Sampling, not proof.',
    level_note='Trusted: u128 reference; needs a CPU with AVX512F (otherwise the job is skipped and the run is inconclusive, never a violation).',
    assumptions=['CPU supports AVX512F', 'kernel operand assumptions as documented (canonical second operand for _b_c, multiplier < 2^8 for _8/_72, c_h < 2^32 for 96-bit reduction)'],
)
_MAT_RULE = ('rapidcheck-generated 12-element states (AVX512: two interleaved states) and coefficient arrays (12/48/144) in any representation; (state element, coefficient) pairs are '
             'solved so that lane products land, as integers, in [p,2^64) or next to 2^64-1 (raw non-canonical products, several in the same lane), plus residue-targeted and independent pairs; '
             '8-bit variants get entries < 2^8 by construction; aligned variants get aligned arrays, the others a deliberately misaligned exact-size heap block. '
             'Oracle: integer matrix-vector product mod p in the documented layout (u128). Non-trivial: a lane with non-canonical raw products or a non-canonical state. '
             'distinct = distinct (kernel,state,coefficients) among non-trivial cases.')
PROPS['C13'] = dict(
    title='AVX2 dot/sparse/dense 12-wide matrix kernels equal the product mod p',
    jobs=[J('h_lanes', 'fast2', 1_200_000, 150_000_000, only='c13')],
    rule=_MAT_RULE, expected_classes=['mat:>=2-noncanonical-products-in-a-lane', 'mat:1-noncanonical-product', 'mat:noncanonical-state', 'mat:aligned-variant', 'mat:misaligned-array'],
    technique='rapidcheck property-based testing: product-targeted state/coefficient generators vs u128 matrix-vector reference',
    level_text='Generated-input search over the 11 AVX2 matrix kernels with operands constructed so that intermediate products and sums land in the non-canonical band; exact oracle. Sampling, not proof.',
    level_note='Trusted: u128 reference.',
    assumptions=['8-bit variants: all coefficients < 2^8', 'aligned variants: 32-byte aligned arrays'],
)
PROPS['C14'] = dict(
    title='AVX512 dot/sparse/dense matrix kernels equal the product mod p, two states',
    jobs=[J('h_lanes', 'fast5', 1_200_000, 150_000_000, only='c14')],
    rule=_MAT_RULE, expected_classes=['mat:>=2-noncanonical-products-in-a-lane', 'mat:1-noncanonical-product', 'mat:noncanonical-state'],
    technique='rapidcheck property-based testing on the -D__AVX512__ build: product-targeted generators vs u128 matrix-vector reference',
    level_text='Generated-input search over the 7 AVX512 matrix kernels (two interleaved states) with several non-canonical raw products per lane; exact oracle. Sampling, not proof.',
    level_note='Trusted: u128 reference; needs AVX512F hardware.',
    assumptions=['CPU supports AVX512F', '8-bit variants: all coefficients < 2^8'],
)
