# Registry: build configurations, harnesses and the jobs that decide each property.
# (Read by ./check; keep it declarative.)

BASE = '-std=gnu++17 -Wno-unused -fopenmp'
SAN = '-O1 -g -fno-omit-frame-pointer -fsanitize=address,undefined -fno-sanitize-recover=undefined'
ASAN_ENV = {'ASAN_OPTIONS': 'detect_leaks=1:alloc_dealloc_mismatch=1:abort_on_error=1:detect_stack_use_after_return=0',
            'UBSAN_OPTIONS': 'print_stacktrace=1:halt_on_error=1'}

CFGS = {
    # the Makefile's flags (testcpu): g++ -O3 -mavx2 -fopenmp, asserts live
    'fast2': dict(cxx='g++', cflags=BASE + ' -O3 -mavx2', ldflags='-fopenmp'),
    # the configuration the shipped suite never compiles
    'fast5': dict(cxx='g++', cflags=BASE + ' -O3 -mavx2 -mavx512f -D__AVX512__', ldflags='-fopenmp', needs_avx512=True),
    'san2': dict(cxx='g++', cflags=BASE + ' -mavx2 ' + SAN, ldflags='-fopenmp -fsanitize=address,undefined', env=ASAN_ENV),
    'san5': dict(cxx='g++', cflags=BASE + ' -mavx2 -mavx512f -D__AVX512__ ' + SAN, ldflags='-fopenmp -fsanitize=address,undefined', env=ASAN_ENV, needs_avx512=True),
    # OpenMP regions compiled by g++ but executed by our runtime stand-in (harness owns the schedule)
    # other optimisation levels (inline asm constraints and intrinsics sequences are re-scheduled by the compiler): thorough tier only
    'dbg2': dict(cxx='g++', cflags=BASE + ' -O0 -mavx2', ldflags='-fopenmp'),
    'clang2': dict(cxx='clang++', cflags=BASE + ' -O2 -mavx2', ldflags='-fopenmp'),
    'shim2': dict(cxx='g++', cflags=BASE + ' -O2 -mavx2', ldflags='-pthread', link_src=['engine/ompshim.cpp']),
    'shim5': dict(cxx='g++', cflags=BASE + ' -O2 -mavx2 -mavx512f -D__AVX512__', ldflags='-pthread', link_src=['engine/ompshim.cpp'], needs_avx512=True),
    'tsan2': dict(cxx='g++', cflags=BASE + ' -O1 -g -mavx2 -fsanitize=thread', ldflags='-pthread -fsanitize=thread', link_src=['engine/ompshim.cpp'],
                  env={'TSAN_OPTIONS': 'halt_on_error=1:abort_on_error=1:report_signal_unsafe=0'}),
}

HARNESSES = {
    'h_c01': dict(src='h_c01.cpp'),
}


def J(harness, cfg, quick, thorough, only=None, wq=8, wt=16, **kw):
    d = dict(harness=harness, cfg=cfg, cases=dict(quick=quick, thorough=thorough), workers=dict(quick=wq, thorough=wt))
    if only:
        d['only'] = only
    d.update(kw)
    return d


PROPS = {}
NOT_APPLICABLE = {}   # property id -> reason (only for properties this technique cannot decide)
HOOK_COMMITS = []     # no guarded hooks in /repo

PROPS['C01'] = dict(
    title='Scalar field ops are exact mod p on every 64-bit representation',
    level='exploration',
    jobs=[J('h_c01', 'fast2', 16_000_000, 1_600_000_000),
          J('h_c01', 'dbg2', 1, 100_000_000, tiers=['thorough'], class_prefix='O0-build:'),
          J('h_c01', 'clang2', 1, 200_000_000, tiers=['thorough'], class_prefix='clang-build:')],
    rule='rapidcheck-generated (a,b[,alias]) per op from boundary classes (canonical edges, non-canonical band [p,2^64), 32-bit hi/lo patterns, 2^k+-d) '
         'and SOLVED second operands (sum/difference next to 2^64, p, 2^64+p; product residue next to 0, 2^32, p; product high word on 32-bit edge patterns). '
         'Oracle: (a op b) mod p in unsigned __int128, cross-checked with GMP on every case. A case is non-trivial when an operand is non-canonical, '
         'an alias pattern is used, or the carry-chain model says a correction path fires (first/second carry, borrow, final borrow of mul, inc/dec branches). '
         'distinct = distinct (op,a,b,alias) tuples among non-trivial cases (hash set, capped per worker).',
    expected_classes=['add:first-carry', 'add:second-carry', 'sub:first-borrow', 'sub:second-borrow', 'mul:carry-after-fold', 'mul:final-borrow',
                      'inc:p-2', 'inc:p-1->0', 'dec:0->p-1', 'dec:p', 'alias:out==a', 'alias:out==b', 'alias:a==b', 'alias:all-same', 'mulScalar:scalar>=p'],
    technique='rapidcheck property-based testing: boundary/solved-operand generators vs u128+GMP reference oracle, metamorphic residue-class relation',
    level_text='Generated-input search (16M cases quick, 1.6G thorough) over constructed boundary classes with an independent exact oracle; every carry/borrow correction path is hit thousands of times and counted. Not a proof: the 2^128 operand space is sampled through constructed windows.',
    level_note='Trusted: unsigned __int128 % and GMP (cross-checked on every case); g++ -O3 -mavx2 build as shipped. A defect keyed on a value outside all generated classes stays invisible.',
    assumptions=['reference arithmetic: unsigned __int128 with % and GMP mpz (cross-checked against each other)',
                 'build flags of the shipped test target (g++ -O3 -mavx2 -fopenmp, asserts live)'],
)

HARNESSES['h_lanes'] = dict(src='h_lanes.cpp')

_LANE_RULE = ('rapidcheck-generated register contents: every lane gets its own (a,b) from the boundary / solved-operand pair generator of the kernel\'s scalar counterpart '
              '(documented operand restrictions applied by construction: shifted / canonical first operand, b<=0xFFFFFFFF00000000, b<2^8, c_h<2^32, canonical b). '
              'Oracle per lane: u128 reference (field result compared canonically; exact integer equality for 128/72-bit products; exact value <p for canonicalise). '
              'Non-trivial: some lane reaches a mask/correction path (operand >= p, wrap in add, borrow in sub, equal high halves in the 32-bit compare, reduction wrap/borrow, raw result >= p). '
              'distinct = distinct full register contents among non-trivial cases.')
_LANE_CLASSES = ['lane:a>=p', 'lane:add-wrap', 'lane:b>=p', 'lane:sub-borrow', 'lane:equal-high-halves', 'lane:reduce-borrow', 'lane:reduce-wrap', 'lane:raw-result>=p', 'lane:c_l>=p', 'lane:product-128']

PROPS['C02'] = dict(
    title='AVX2 lane kernels equal the scalar field op in every lane, every input',
    jobs=[J('h_lanes', 'fast2', 6_000_000, 800_000_000, only='c02'),
          J('h_lanes', 'dbg2', 1, 40_000_000, only='c02', tiers=['thorough'], class_prefix='O0-build:'),
          J('h_lanes', 'clang2', 1, 100_000_000, only='c02', tiers=['thorough'], class_prefix='clang-build:'),
          J('h_lanes', 'fast5', 1_000_000, 200_000_000, only='c02', tiers=['thorough'], class_prefix='avx512-build:')],
    rule=_LANE_RULE, expected_classes=_LANE_CLASSES,
    technique='rapidcheck property-based testing: per-lane boundary/solved-operand generators vs u128 reference oracle (differential against the scalar semantics)',
    level_text='Generated-input search over all 16 AVX2 lane kernels with per-lane independent operands constructed to reach every mask path; exact oracle. Sampling, not proof.',
    level_note='Trusted: u128 reference; the CPU executes AVX2 as specified. Operand assumptions are taken from the kernel comments.',
    assumptions=['kernel operand assumptions as documented in the header comments', 'u128 reference arithmetic'],
)
PROPS['C11'] = dict(
    title='AVX512 lane kernels equal the scalar field op in every lane, every input',
    jobs=[J('h_lanes', 'fast5', 6_000_000, 800_000_000, only='c11')],
    rule=_LANE_RULE, expected_classes=_LANE_CLASSES,
    technique='rapidcheck property-based testing on the -D__AVX512__ build: per-lane boundary/solved-operand generators vs u128 reference oracle',
    level_text='Generated-input search over all 13 AVX512 lane kernels on AVX512F hardware (the configuration the shipped suite never compiles); exact oracle. Sampling, not proof.',
    level_note='Trusted: u128 reference; needs a CPU with AVX512F (otherwise the job is skipped and the run is inconclusive, never a violation).',
    assumptions=['CPU supports AVX512F', 'kernel operand assumptions as documented (canonical second operand for _b_c, multiplier < 2^8 for _8/_72, c_h < 2^32 for 96-bit reduction)'],
)
_MAT_RULE = ('rapidcheck-generated 12-element states (AVX512: two interleaved states) and coefficient arrays (12/48/144) in any representation; (state element, coefficient) pairs are '
             'solved so that lane products land, as integers, in [p,2^64) or next to 2^64-1 (raw non-canonical products, several in the same lane), plus residue-targeted and independent pairs; '
             '8-bit variants get entries < 2^8 by construction; aligned variants get aligned arrays, the others a deliberately misaligned exact-size heap block. '
             'Oracle: integer matrix-vector product mod p in the documented layout (u128). Non-trivial: a lane with non-canonical raw products or a non-canonical state. '
             'distinct = distinct (kernel,state,coefficients) among non-trivial cases.')
PROPS['C13'] = dict(
    title='AVX2 dot/sparse/dense 12-wide matrix kernels equal the product mod p',
    jobs=[J('h_lanes', 'fast2', 1_200_000, 60_000_000, only='c13')],
    rule=_MAT_RULE, expected_classes=['mat:>=2-noncanonical-products-in-a-lane', 'mat:1-noncanonical-product', 'mat:noncanonical-state', 'mat:aligned-variant', 'mat:misaligned-array'],
    technique='rapidcheck property-based testing: product-targeted state/coefficient generators vs u128 matrix-vector reference',
    level_text='Generated-input search over the 11 AVX2 matrix kernels with operands constructed so that intermediate products and sums land in the non-canonical band; exact oracle. Sampling, not proof.',
    level_note='Trusted: u128 reference.',
    assumptions=['8-bit variants: all coefficients < 2^8', 'aligned variants: 32-byte aligned arrays'],
)
PROPS['C14'] = dict(
    title='AVX512 dot/sparse/dense matrix kernels equal the product mod p, two states',
    jobs=[J('h_lanes', 'fast5', 1_200_000, 60_000_000, only='c14')],
    rule=_MAT_RULE, expected_classes=['mat:>=2-noncanonical-products-in-a-lane', 'mat:1-noncanonical-product', 'mat:noncanonical-state'],
    technique='rapidcheck property-based testing on the -D__AVX512__ build: product-targeted generators vs u128 matrix-vector reference',
    level_text='Generated-input search over the 7 AVX512 matrix kernels (two interleaved states) with several non-canonical raw products per lane; exact oracle. Sampling, not proof.',
    level_note='Trusted: u128 reference; needs AVX512F hardware.',
    assumptions=['CPU supports AVX512F', '8-bit variants: all coefficients < 2^8'],
)

HARNESSES['h_ntt'] = dict(src='h_ntt.cpp')


def _ntt_jobs(tag, extra_random=None, cfg='fast2', qcases=24000, tcases=600_000):
    rnd = '%s.random' % tag + (',' + extra_random if extra_random else '')
    return [
        J('h_ntt', cfg, 1, 1, only='%s.enum,%s.basis' % (tag, tag), wq=16, wt=16, args=['--enumerate', '--level', '0'], tiers=['quick'], tag='enum'),
        J('h_ntt', cfg, 1, 1, only='%s.enum,%s.basis' % (tag, tag), wq=16, wt=16, args=['--enumerate', '--level', '1'], tiers=['thorough'], tag='enum'),
        J('h_ntt', cfg, qcases, 1, only=rnd, wq=16, args=['--level', '0'], tiers=['quick'], tag='rnd'),
        J('h_ntt', cfg, 1, tcases, only=rnd, wt=16, args=['--level', '1'], tiers=['thorough'], tag='rnd'),
        # the same random tier on the AVX512 build of the library (conditional code paths of that build)
        J('h_ntt', 'fast5', qcases // 4, tcases // 4, only=rnd, wq=8, wt=16, args=['--level', '0'], tag='rnd5', class_prefix='avx512-build:'),
        # ... and on a -DNDEBUG build (asserts compiled out: nothing may depend on the side effect of an assert)
        J('h_ntt', 'ndbg2', qcases // 8, tcases // 8, only=rnd, wq=8, wt=16, args=['--level', '0'], tag='rndN', class_prefix='ndebug-build:'),
    ]


_NTT_RULE = ('(a) EXHAUSTIVE small scope, every case in a forked child: log maxDomain 0..5 (thorough 0..6) x log n <= log max (and size 0) x ncols {0,1,3} (thorough {0,1,2,3,5}) x '
             'nphase {0..8,64,2^32,2^64-1} x nblock {0,1,2,3,2^64-1} (thorough {0..6,3000,2^64-1}) x dst {src,other,NULL} x buffer {NULL,caller} x nThreads {1,2,3,5,16} '
             '(quick: rotated, thorough: full cross); plus the complete single-cell basis at every n<=64 on a reduced configuration set (linearity); '
             '(b) rapidcheck-random configurations up to n=2^11 (thorough 2^16), ncols<=12, threads<=64, arbitrary uint64 nphase/nblock. Inputs mix canonical, non-canonical and edge representations. '
             'Oracle: naive O(n^2) DFT for n<=64, independent recursive FFT above (validated against the naive DFT at start); exact-size heap buffers; abort/SIGSEGV of the child = failure. '
             'Random cases also vary HOW the call is made: one earlier call on the same object, another (smaller / larger / already destroyed / used) instance constructed first, source-destination-scratch as separate heap blocks or touching each other in one arena (six orders, sentinel words at both ends), '
             'the call made by one member of an enclosing parallel region, special columns (zero, constant, one spectral line, degree-1, all p-1) alone or next to generic ones, wide matrices up to 1100 columns; a quarter of the random budget runs on the AVX512 build. '
             'Non-trivial: n<maxDomain, nphase!=3, effective nblock>1, NULL destination, caller buffer, explicit threads, size-1/no-op shapes. distinct = distinct configuration tuples (incl. data seed).')
_NTT_CLASSES = ['cfg:n<maxDomain', 'cfg:nphase!=3', 'cfg:effective-nblock>1', 'cfg:dst=NULL', 'cfg:dst=other', 'cfg:caller-buffer', 'cfg:explicit-threads', 'cfg:n=1', 'data:basis']

PROPS['C03'] = dict(
    title='NTT computes the DFT for every size and configuration', exhaustive=False,
    jobs=_ntt_jobs('c03'), rule=_NTT_RULE, expected_classes=_NTT_CLASSES + ['cfg:no-op(size0/ncols0)'],
    technique='exhaustive small-scope enumeration of the configuration space + rapidcheck-random larger configurations, fork-per-case, naive-DFT / reference-FFT oracle',
    level_text='The configuration space (sizes, phases, blocks, aliasing, buffers, threads) is enumerated completely below n=64 and sampled above; each case is checked element-wise against an independent DFT. Crashes are first-class failures. Above 2^16 rows nothing is explored.',
    level_note='Trusted: u128 reference DFT/FFT; the primitive roots come from Goldilocks::w (checked to be a tower of primitive roots). exhaustive=false overall because the random tier and the input matrices are sampled; the small-scope configuration enumeration itself is complete.',
    assumptions=['caller scratch buffers hold size*ncols elements', 'objects constructed with the default extension=1', 'n <= 2^16 (memory/time)'],
)
PROPS['C04'] = dict(
    title='INTT is the exact inverse transform in every configuration',
    jobs=_ntt_jobs('c04', 'c04.roundtrip', qcases=32000, tcases=800_000), rule=_NTT_RULE + ' Round trips INTT(NTT(x)) and NTT(INTT(x)) use independently drawn (nphase,nblock) for the two calls.',
    expected_classes=_NTT_CLASSES,
    technique='exhaustive small-scope enumeration + rapidcheck-random configurations and round trips, fork-per-case, inverse-DFT oracle',
    level_text='Same exploration as C03 with the inverse-DFT oracle out[k] = n^-1 sum in[j] w^-jk, plus both round trips with different phase/block settings per direction.',
    level_note='Trusted: u128 reference inverse DFT; n^-1 and w^-1 computed by Fermat exponentiation in the reference.',
    assumptions=['caller scratch buffers hold size*ncols elements', 'n <= 2^16'],
)
PROPS['C05'] = dict(
    title='extendPol is the low-degree extension onto the shifted coset',
    jobs=_ntt_jobs('c05', qcases=16000, tcases=400_000),
    rule='Same enumeration scheme as C03 for extendPol: log N 0..5(6), log N_ext - log N in 0..3, object domain in {N, larger}, ncols {1,3}({1,2,3,5}), all nphase/nblock values, buffer {NULL, caller N_ext*ncols}, '
         'output == input (N_ext rows, rows >= N pre-filled with junk that must not leak) or distinct; random tier up to N_ext = 2^12 (thorough 2^17). '
         'Oracle: coefficients by independent inverse DFT, multiplied by 7^j, zero-padded, forward reference DFT of size N_ext; cross-checked on sampled points by Horner evaluation at 7*w^k. '
         'Non-trivial: N_ext>N, even effective phase count, nblock>1, N=1, caller buffer, explicit threads.',
    expected_classes=['ext:N_ext>N', 'ext:N_ext==N', 'ext:even-effective-phase-count', 'ext:in-place', 'ext:distinct-output', 'cfg:effective-nblock>1', 'cfg:n=1', 'cfg:n<maxDomain'],
    technique='exhaustive small-scope enumeration + rapidcheck-random configurations, fork-per-case, interpolate-and-evaluate (inverse DFT + coset DFT / Horner) oracle',
    level_text='extendPol configuration space enumerated completely for N<=32(64), blow-up <= 8, and sampled above; every output element compared with the independent LDE.',
    level_note='Trusted: u128 reference; coset shift 7 taken from the property statement.',
    assumptions=['caller scratch buffers hold N_ext*ncols elements', 'N <= maxDomainSize of the object', 'N_ext <= 2^17'],
)
PROPS['C19'] = dict(
    title='Transform objects are reusable: results depend only on the call arguments',
    jobs=[J('h_ntt', 'fast2', 24000, 1_200_000, only='c19.history', wq=16, wt=16),
          J('h_ntt', 'ndbg2', 3000, 150_000, only='c19.history', wq=8, wt=16, tag='hN', class_prefix='ndebug-build:')],
    rule='rapidcheck-generated call histories (1..8 calls of NTT/INTT/extendPol with sizes <= object domain 2^1..2^7, ncols 1..4, nphase/nblock from the edge sets, dst/buffer modes, '
         'interleaved transforms of a foreign object that change the global OpenMP team size) on ONE shared object, each history in a forked child. '
         'Oracle: the k-th output is bit-identical to the same call on a freshly constructed object and equal to the C03-C05 reference. '
         'Non-trivial: >= 2 different (kind,size) pairs in the history; in particular two extendPol calls with different N.',
    expected_classes=['hist:>=2-different-(kind,size)', 'hist:two-extendPol-with-different-N', 'hist:foreign-object-call'],
    technique='rapidcheck stateful/history generation with whole-sequence shrinking, model = fresh object + DFT reference, fork-per-history',
    level_text='Model-based history testing: thousands of generated call sequences per run, compared call by call with a fresh object (bit-identical) and the mathematical oracle.',
    level_note='Trusted: reference DFT; histories limited to 8 calls and domains <= 2^7.',
    assumptions=['every call size within the object maximum domain'],
)

HARNESSES['h_poseidon'] = dict(src='h_poseidon.cpp')

PROPS['C06'] = dict(
    title='Poseidon permutation: scalar, AVX2, AVX512 agree with the spec on all states',
    jobs=[J('h_poseidon', 'fast5', 1_800_000, 60_000_000, only='c06.perm,c06.backsolved,c06.partial', wq=12),
          J('h_poseidon', 'fast2', 600_000, 15_000_000, only='c06.perm,c06.backsolved,c06.partial', wq=4, class_prefix='avx2-build:'),
          J('h_poseidon', 'fast5', 1, 1, only='c06.kat', wq=1, wt=1, args=['--enumerate'], tag='kat'),
          J('h_poseidon', 'fast2', 1, 1, only='c06.kat', wq=1, wt=1, args=['--enumerate'], tag='kat', class_prefix='avx2-build:')],
    rule='rapidcheck-generated 12-element states (AVX512: pairs of states in the interleaved layout) from the boundary element classes, all-equal and one-hot states, and BACK-SOLVED states: '
         'the state entering one of the first four linear layers (3x M, 1x P) is chosen per coordinate (incl. coordinates whose product with a matrix entry has a residue < 2^32) and the preceding rounds are inverted with the reference '
         '(7th root, inverse MDS by Gaussian elimination) to obtain the permutation input. Oracle: reference permutation written from the round structure on the tables C, M, P, S; compared element-wise (canonical) with '
         'hash_full_result_seq, hash_full_result, hash_full_result_avx512 (both interleaved states), in-place calls, and hash_seq/hash/hash_avx512 = first four elements; the suite\'s known-answer vector pins the tables; '
         'table facts relied on by the vector code (C,S,P_ canonical, C<=0xFFFFFFFF00000000, M_<2^8, M_/P_ = transposed layouts of M/P) enumerated. Non-trivial: state with non-canonical/edge element or back-solved. distinct = distinct states.',
    expected_classes=['perm:non-canonical-element', 'backsolved:layer1(M)', 'backsolved:layer2(M)', 'backsolved:layer3(M)', 'backsolved:layer4(P)', 'kat'],
    technique='rapidcheck differential testing of three backends against an independent reference permutation; back-solved mid-permutation states; known-answer vectors',
    level_text='Generated-input differential search: every state goes through scalar, AVX2 and AVX512 backends and an independent reference. Back-solving places chosen values in the middle of the permutation where input-side sampling cannot. Sampling, not proof.',
    level_note='Trusted: reference permutation (pinned by the suite\'s known-answer vector), the library tables C/M/P/S as the specification\'s constants. AVX512 part needs AVX512F hardware.',
    assumptions=['round constants and matrices of the library are the specification', 'CPU supports AVX512F for the AVX512 backend'],
)
PROPS['C07'] = dict(
    title='linear_hash is the rate-8 capacity-4 sponge for every input length',
    jobs=[J('h_poseidon', 'fast5', 1, 1, only='c07.lengths', wq=8, wt=16, args=['--enumerate', '--level', '0'], tiers=['quick'], tag='enum'),
          J('h_poseidon', 'fast5', 1, 1, only='c07.lengths', wq=8, wt=16, args=['--enumerate', '--level', '1'], tiers=['thorough'], tag='enum'),
          J('h_poseidon', 'fast2', 1, 1, only='c07.huge', wq=1, wt=4, args=['--enumerate', '--level', '0'], tiers=['quick'], tag='huge'),
          J('h_poseidon', 'fast2', 1, 1, only='c07.huge', wq=1, wt=4, args=['--enumerate', '--level', '1'], tiers=['thorough'], tag='huge'),
          J('h_poseidon', 'fast5', 40_000, 1_500_000, only='c07.random', wq=8, wt=16, tag='rnd'),
          J('h_poseidon', 'fast2', 10_000, 400_000, only='c07.random', wq=4, wt=16, tag='rnd', class_prefix='avx2-build:'),
          # "read exactly the declared input length", byte-exact: the same lengths on the AddressSanitizer builds with exact-size inputs (a read that stays
          # inside the last 32-byte lane never reaches the guard page of the plain builds)
          J('h_poseidon', 'san5', 1, 1, only='c07.lengths', wq=8, wt=16, args=['--enumerate', '--level', '0'], tag='asan', class_prefix='asan-build:'),
          J('h_poseidon', 'san2', 1, 1, only='c07.lengths', wq=8, wt=16, args=['--enumerate', '--level', '0'], tag='asan2', class_prefix='asan-avx2-build:')],
    rule='EVERY length 0..200 enumerated (4 contents each, thorough 16) plus rapidcheck-random lengths up to 5000 with explicit boundary-class prefixes; contents mix canonical / non-canonical / edge representations. '
         'Oracle: reference sponge (zero capacity, 8 elements per block, zero padding, first four outputs fed back) on the reference permutation; pass-through and zero padding for length <= 4. '
         'linear_hash_seq, linear_hash (AVX2) and linear_hash_avx512 (two consecutive inputs) must all return it. Inputs are exact-size heap blocks followed by junk that is varied (metamorphic: digest must not change); '
         'an 8-element canary follows the 4 (8) output elements; the input must stay unmodified. The second input of the paired AVX512 variant is independent of the first or related to it (identical, one element / the last element changed, common prefix). '
         'Lengths around every power of two up to 2^16 are sampled, one input of 2^24+1 elements (thorough: four lengths above 2^24) is hashed by the scalar and AVX2 variants; the enumeration is repeated on the ASan builds with exact-size inputs (byte-exact read footprint). Non-trivial: length <= 8 or not a multiple of 8.',
    expected_classes=['lh:pass-through(<=4)', 'lh:single-block(5..8)', 'lh:partial-last-block', 'lh:multiple-of-8', 'lh:empty'],
    technique='exhaustive enumeration of lengths 0..200 + rapidcheck-random lengths, reference-sponge oracle, metamorphic junk-after-input relation',
    level_text='All lengths up to 200 (every residue mod 8 many times, both sides of the pass-through threshold) are enumerated and longer ones sampled; three backends against an independent sponge.',
    level_note='Trusted: reference permutation/sponge. Read-exactly-the-declared-length is decided by guard pages right after the input (plain builds), by the junk metamorphic relation, and byte-exactly by the ASan jobs of this check.',
    assumptions=['AVX512 variant receives two inputs of equal length stored consecutively'],
)
PROPS['C08'] = dict(
    title='Merkle tree buffer and root are the binary Poseidon tree over row digests',
    jobs=[J('h_poseidon', 'fast5', 1, 1, only='c08.enum', wq=16, wt=16, args=['--enumerate', '--level', '0'], tiers=['quick'], tag='enum'),
          J('h_poseidon', 'fast5', 1, 1, only='c08.enum', wq=16, wt=16, args=['--enumerate', '--level', '1'], tiers=['thorough'], tag='enum'),
          J('h_poseidon', 'fast2', 1, 1, only='c08.enum', wq=16, wt=16, args=['--enumerate', '--level', '0'], tag='enum', class_prefix='avx2-build:'),
          J('h_poseidon', 'fast5', 6000, 400_000, only='c08.random,c08.sequence', wq=16, wt=16, tag='rnd'),
          J('h_poseidon', 'fast2', 2000, 100_000, only='c08.random,c08.sequence', wq=8, wt=16, tag='rnd', class_prefix='avx2-build:'),
          J('h_poseidon', 'ndbg2', 1000, 50_000, only='c08.random', wq=8, wt=16, tag='rndN', class_prefix='ndebug-build:')],
    rule='Enumerated: 8 builders (seq/avx/avx512, batch seq/avx/avx512, both default wrappers) x rows 2^0..2^4 (thorough 2^7) x cols {0,1,3,4,5,8,9,12,13,17,33} (thorough 22 values to 128) x dim {1,2,3} x '
         'batch sizes {1,3,4,cols-1,cols+1,2^20} (thorough 11 values) x nThreads rotated over {0,1,2,3,5,16}; plus rapidcheck-random shapes (rows to 2^8/2^10, cols to 140, batch to 2^40, threads to 33); each case forked. '
         'Oracle: every element of the tree buffer vs the reference tree (row digests by reference sponge; batched leaf = sponge of concatenated per-batch digests; parent = first 4 outputs of perm(left||right||0000)); '
         'buffer length = getTreeNumElements(rows) = 4(2 rows - 1); root() = last four; 16-element canary after the tree; input unmodified. In the -D__AVX512__ build the wrappers select the AVX512 builders. '
         'Non-trivial: rows != 64, cols == 0, dim > 1, batch not dividing cols, explicit thread count.',
    expected_classes=['mt:one-row', 'mt:zero-cols', 'mt:dim>1', 'mt:batch-not-dividing-cols', 'mt:several-batches', 'mt:batch>=cols', 'mt:explicit-threads',
                      'merkletree_avx512', 'merkletree_batch_avx512', 'merkletree (wrapper)', 'merkletree_batch (wrapper)', 'merkletree_seq', 'merkletree_batch_seq', 'merkletree_avx', 'merkletree_batch_avx'],
    technique='exhaustive small-scope enumeration of tree shapes and builders + rapidcheck-random shapes, reference-tree oracle, fork-per-case, canary after the tree',
    level_text='Tree shapes (rows, cols, dim, batch size, threads) are enumerated over a small scope for all eight builders and sampled beyond; each tree is compared element by element with an independent reference tree.',
    level_note='Trusted: reference permutation/sponge/tree. Rows limited to 2^10.',
    assumptions=['num_rows is a power of two >= 1', 'batch_size >= 1', 'nThreads >= 0'],
)

HARNESSES['h_scalar2'] = dict(src='h_scalar2.cpp')

PROPS['C10'] = dict(
    title='Base-field inverse, division and power are exact and total on non-zero',
    jobs=[J('h_scalar2', 'fast2', 4_000_000, 400_000_000, only='c10')],
    rule='rapidcheck-generated operands: boundary element classes plus Euclid-directed values (floor/ceil of p/q for q from edge sets and small integers: huge or tiny first quotient; neighbours of p/phi: longest all-ones chains; 2^k, 2^32+-1, (p+-1)/2, p-1, '
         'the +p alias of every value < 2^32-1); exponents {0,1,2,2^k,2^k-1,p-1,p-2,p,2^64-1,uniform}. Oracle: reference multiplier: a*inv(a) == 1, div(a,b)*b == a, reference square-and-multiply for exp; return/out/operator/aliased forms; '
         'class independence by repeating with the other representative. Refusal of zero: a forked child calls inv(0), inv(p), div(x,0), div(x,p); the parent requires that the call never returns, the process exits with non-zero status without a signal and a diagnostic on stderr. '
         'Termination: a watchdog aborts (= failure) if a call that normally takes < 1 us does not finish within minutes. Non-trivial: every case (each exercises the Euclid loop / the exponent loop); distinct = distinct operand tuples.',
    expected_classes=['inv:non-canonical-operand', 'inv:huge-quotient', 'inv:long-euclid-chain(>=60)', 'inv:short-euclid-chain(<=3)', 'exp:e=0', 'exp:e>=p-2', 'exp:power-of-two', 'refuse:zero-operand', 'div:non-canonical-operand'],
    technique='rapidcheck property-based testing: Euclid-directed generators, inverse/round-trip oracle with the reference multiplier, forked-child refusal check',
    level_text='Generated-input search with an algebraic round-trip oracle (uniqueness of inverses makes a*inv(a)=1 equality with the true inverse) and a reference exponentiation; zero refusal observed as process behaviour of a forked child.',
    level_note='Trusted: u128 reference multiplier. Termination is checked with a very generous watchdog only.',
    assumptions=['inv of zero is specified to end the process with a diagnostic (exit, not abort)'],
)
PROPS['C15'] = dict(
    title='Conversions are total, canonical, round-trip; predicates ignore representation',
    jobs=[J('h_scalar2', 'fast2', 16_000_000, 1_000_000_000, only='c15')],
    rule='rapidcheck-generated uint64/int64/int32 from the edge sets of their own ranges (INT32_MIN, INT64_MIN, +-(p-1)/2 +- 1, 2^64-1, ...) plus boundary element classes; integers Z of any sign and magnitude up to 2^200+ '
         '(k*p + d for k in {0,1,2,3,small,huge}, 2^k +- d, raw limbs) passed as mpz and as strings in radix 2..36 with mixed-case digits and leading zeros; every representation for the outward conversions. '
         'Oracle: GMP floor-mod of the mathematical integer; canonical value; centred lift; toS32 success <=> centred value in [-2^31, 2^31); own digit routine for toString; predicates compared on both representatives; '
         'round trips on the stated ranges. Non-trivial: every case is classified by range class; distinct = distinct inputs.',
    expected_classes=['big:below--p', 'big:in[-p,0)', 'big:in[0,p)', 'big:in[p,2^64)', 'big:above-2^64', 'fromS32:INT32_MIN', 'fromS64:INT64_MIN', 'to:int32-range-boundary', 'to:centre-boundary', 'to:non-canonical-representation', 'big:radix10', 'big:radix16', 'big:radix36', 'big:radix2'],
    technique='rapidcheck property-based testing with GMP floor-mod oracle, round-trip and metamorphic (other representative) relations; libFuzzer target for string parsing (thorough tier)',
    level_text='Generated-input search over integer, big-integer and string conversions with an arbitrary-precision oracle; range boundaries of every conversion are generated deliberately.',
    level_note='Trusted: GMP arithmetic and GMP string formatting used to build inputs (the library itself parses with GMP, so parsing is not independently modelled).',
    assumptions=['strings are those GMP itself accepts for the radix'],
)

HARNESSES['h_cubic'] = dict(src='h_cubic.cpp')

PROPS['C09'] = dict(
    title='Cubic extension arithmetic is exact in F_p[x]/(x^3 - x - 1)',
    jobs=[J('h_cubic', 'fast2', 3_000_000, 300_000_000)],
    rule='rapidcheck-generated coefficient triples from the boundary element classes (plus sparse and all-equal triples) for every scalar entry point: add/sub with element, base element, uint64; neg; mul by element (reference and pointer forms), '
         'base element, uint64; square; div by base element; mulScalar by a decimal string of any sign and magnitude (k*p+d, several limbs); inv (both forms); batchInverse lengths 1..64 and up to 2000; isOne with (1,0,0), (1,y,z), (p+1,p,p), (0,0,0) generated deliberately; '
         'copy/zero/one. Whole-operand aliasing result==a, result==b, a==b, all the same. Oracle: schoolbook product reduced by x^3 = x + 1 in u128; a*inv(a) = 1 and res[i]*src[i] = 1 with the reference multiplier (uniqueness of inverses); '
         'batchInverse also equals element-wise inv. Non-trivial: non-canonical coefficient, aliasing, array length classes, string range classes. distinct = distinct operand tuples.',
    expected_classes=['ext:non-canonical-coefficient', 'ext:result==a', 'ext:result==b', 'ext:a==b', 'ext:all-same', 'batchInverse:len=1', 'batchInverse:len>64', 'isOne:true-case', 'isOne:first-coefficient-one-but-not-one',
                      'mulScalar:string-below--p', 'mulScalar:negative-string', 'mulScalar:string>=p', 'inv', 'div(E,base)', 'mul(E,E)', 'square'],
    technique='rapidcheck property-based testing vs schoolbook reference in F_p[x]/(x^3-x-1); inverse round-trip oracle; aliasing dimension',
    level_text='Generated-input search over all 18 scalar entry points plus batchInverse/mulScalar/isOne with an independent exact oracle. Sampling, not proof.',
    level_note='Trusted: u128 reference; GMP for the string operand. Partial aliasing (a by-reference base operand pointing into the result) is outside the generated domain: the aliasing clause is read as whole-operand aliasing.',
    assumptions=['batchInverse arrays are non-empty and contain non-zero elements', 'division by a non-zero base element'],
)

HARNESSES['h_wrappers'] = dict(src='h_wrappers.cpp', deps=['harness/c17_table.inc'])

PROPS['C17'] = dict(
    title='Strided/offset/broadcast base-field wrappers and bulk copies move the right data',
    jobs=[J('h_wrappers', 'fast5', 1_600_000, 60_000_000, only='c17.copy,c17.add,c17.sub,c17.mul,c17.mixed', wq=16, wt=16, tag='rows'),
          J('h_wrappers', 'fast2', 400_000, 15_000_000, only='c17.copy,c17.add,c17.sub,c17.mul,c17.mixed', wq=8, wt=16, tag='rows', class_prefix='avx2-build:'),
          J('h_wrappers', 'fast2', 24_000, 1_000_000, only='c17.par', wq=16, wt=16, tag='par')],
    rule='One table row per live overload of copy/add/sub/mul x _batch/_avx/_avx512 (164 rows, derived from the declarations in goldilocks_base_field.hpp by tools/gen_c17.py: operand shapes read off parameter types, order and names; '
         '191 declarations counting the 26 commented-out ones; add_batch(Element*, const Element*, const Element*, const uint64_t[4]) is declared but has no definition anywhere: no body to test). '
         'A generic driver draws operand values from the op-specific boundary/solved pair generators, input strides from {0,1,2,3,4,5,7,61,1000}, output strides from {1,..,1000}, index arrays (permutations, sparse, with repeats for inputs; distinct for outputs), '
         'lays operands out in exact-size junk-filled heap arenas, calls the overload and compares lane k with the reference op on the k-th designated operands; every output cell not designated must keep its sentinel; inputs unchanged; '
         'metamorphic rerun with different junk in non-designated input cells must give the same lanes. parcpy/parSetZero: sizes {0..70, 2^k+-1, up to 70000} x thread argument {INT_MIN,-1,0,1,2,3,7,64,256,size-1,size,size+1, default}: '
         'dst[0..size) exact, 64-element canaries on both sides, source unchanged. Non-trivial: stride not in {1,3}, non-identity index array, non-canonical operand; for par: every case is classified by its size/thread relation.',
    expected_classes=['shape:stride-0', 'shape:large-stride', 'shape:index-array-with-repeats', 'shape:permuted/sparse-input-index', 'shape:permuted/sparse-output-index', 'shape:non-canonical-operand',
                      'par:size-0', 'par:non-positive-threads', 'par:more-threads-than-elements', 'par:size-not-multiple-of-threads', 'par:default-thread-argument'],
    technique='table-driven rapidcheck property-based testing of every overload against the scalar reference; sentinel arenas; metamorphic junk relation',
    level_text='Every one of the 164 defined overloads is exercised thousands of times per run with independent strides per operand (so that confusing two strides is visible), sentinel-checked output arenas and a metamorphic stray-read check.',
    level_note='Trusted: u128 reference; the spec of each row is read off the declaration (names offset_a/_b/_c, positional stride). Output strides/index arrays are generated non-overlapping; thread arguments above 256 are not generated.',
    assumptions=['output positions designated by strides/index arrays are distinct', 'thread-count arguments <= 256'],
)

HARNESSES['h_cubic_batch'] = dict(src='h_cubic_batch.cpp', deps=['harness/c16_table.inc'])

PROPS['C16'] = dict(
    title='Every batched/AVX2/AVX512 cubic-extension variant equals the scalar operation',
    jobs=[J('h_cubic_batch', 'fast5', 1_600_000, 100_000_000, wq=16, wt=16),
          J('h_cubic_batch', 'fast2', 400_000, 25_000_000, wq=8, wt=16, class_prefix='avx2-build:')],
    rule='One table row per overload of the add/sub/mul families of Goldilocks3 (156 rows: batch, avx, avx512; derived from the function heads by tools/gen_c16.py: operation, operand dimensions and constness from the name '
         '(13, 31, 33c, 1c3c, 13c, 31c; default 33), operand storage from the parameter types (interleaved array, array with uniform stride or per-element index array, constant array, base scalar, constant extension reference, '
         'one register, planar Element_avx, three separate registers, precomputed challenge sums as array or registers), strides from the parameter names). A generic driver draws coefficient pools from the boundary element classes, '
         'input strides from {0,1,2,3,4,5,7,61,1000} independently per operand (overlapping and repeated positions allowed), output strides from {3,..,1000} and non-overlapping output index arrays, lays operands out in exact-size '
         'junk-filled arenas, consistent challenge sums (b0+b1, b0+b2, b1+b2; sometimes as +p aliases), calls the overload and compares element k with the C09 reference on the k-th designated operands (canonical); '
         'every non-designated output cell must keep its sentinel; inputs unchanged; metamorphic rerun with different junk. The three planar<->interleaved copies (copy_batch, copy_avx, copy_avx512) have their own property (c16.copies: exact 12/24-word destinations ending at a guard page or inside sentinels). Non-trivial: stride not in {1,3}, non-identity index array, non-canonical coefficient.',
    expected_classes=['shape:stride-0', 'shape:overlapping-input-stride', 'shape:large-stride', 'shape:permuted/sparse-input-index', 'shape:permuted/sparse-output-index', 'shape:challenge-sums-operand', 'shape:non-canonical-operand'],
    technique='table-driven rapidcheck property-based testing of all 156 overloads against the schoolbook extension reference; sentinel arenas; metamorphic junk relation',
    level_text='All 156 overloads are exercised thousands of times per run with independent strides per operand, so that a confused stride, coefficient index or operand order is visible; stray writes are caught by sentinels.',
    level_note='Trusted: u128 schoolbook reference; row specs are read off names and parameter types (re-read against the body when a row fails). Output positions never overlap.',
    assumptions=['output strides >= 3 and output index arrays designate non-overlapping triples', 'challenge-sums operand is consistent with the second operand'],
)

_LEAK = {'PBT_LEAKCHECK': '1'}
PROPS['C18'] = dict(
    title='No out-of-bounds, uninitialised, mismatched-free or undefined behaviour',
    jobs=[
        # transforms: configuration enumeration + histories ending in destruction, ASan+UBSan+LSan per forked case
        J('h_ntt', 'san2', 1, 1, only='c03.enum,c04.enum,c05.enum,c05.basis', wq=16, wt=16, args=['--enumerate', '--level', '0', '--enum-stride', '3'], tiers=['quick'], tag='enum', crash_only=True, class_prefix='ntt:'),
        J('h_ntt', 'san2', 1, 1, only='c03.enum,c04.enum,c05.enum,c03.basis,c04.basis,c05.basis', wq=16, wt=16, args=['--enumerate', '--level', '1'], tiers=['thorough'], tag='enum', env=_LEAK, crash_only=True, class_prefix='ntt:'),
        J('h_ntt', 'san2', 6000, 300_000, only='c19.history,c03.random,c04.random,c04.roundtrip,c05.random', wq=16, wt=16, args=['--level', '0'], tag='rnd', env=_LEAK, crash_only=True, class_prefix='ntt:'),
        # Poseidon: sponge lengths, tree shapes (AVX512 build: two rows per call), permutation
        J('h_poseidon', 'san5', 1, 1, only='c07.lengths,c08.enum,c06.kat', wq=16, wt=16, args=['--enumerate', '--level', '0'], tiers=['quick'], tag='enum', crash_only=True, class_prefix='poseidon:'),
        J('h_poseidon', 'san5', 1, 1, only='c07.lengths,c08.enum,c06.kat', wq=16, wt=16, args=['--enumerate', '--level', '1'], tiers=['thorough'], tag='enum', crash_only=True, class_prefix='poseidon:'),
        J('h_poseidon', 'san5', 12_000, 300_000, only='c06.perm,c07.random,c08.random', wq=8, wt=16, tag='rnd', crash_only=True, class_prefix='poseidon:'),
        J('h_poseidon', 'san2', 1, 1, only='c07.lengths,c08.enum', wq=8, wt=16, args=['--enumerate', '--level', '0'], tag='enum', crash_only=True, class_prefix='poseidon-avx2:'),
        # kernels with exact-size coefficient arrays; cubic extension (batchInverse VLAs); all 164 + 156 overloads in exact-size arenas
        J('h_lanes', 'san5', 60_000, 3_000_000, only='c13,c14', wq=6, wt=16, crash_only=True, class_prefix='matrix:'),
        J('h_cubic', 'san2', 150_000, 2_000_000, wq=4, wt=16, crash_only=True, class_prefix='cubic:'),
        J('h_cubic_batch', 'san5', 160_000, 1_200_000, wq=8, wt=16, crash_only=True, class_prefix='cubic-batch:'),
        J('h_wrappers', 'san5', 120_000, 1_200_000, only='c17.copy,c17.add,c17.sub,c17.mul,c17.mixed', wq=8, wt=16, tag='rows', crash_only=True, class_prefix='wrappers:'),
        J('h_wrappers', 'san2', 4000, 200_000, only='c17.par', wq=8, wt=16, tag='par', crash_only=True, class_prefix='wrappers:'),
        J('h_scalar2', 'san2', 200_000, 4_000_000, only='c15', wq=4, wt=16, crash_only=True, class_prefix='conversions:'),
        # uninitialised stack reads: pattern-initialised automatic variables must not change any result (oracle = the functional oracles)
        J('h_ntt', 'init2', 4000, 200_000, only='c19.history,c05.random', wq=8, wt=16, args=['--level', '0'], tiers=['thorough'], tag='rnd', crash_only=True, class_prefix='autoinit:ntt:'),
        J('h_poseidon', 'init2', 20_000, 1_000_000, only='c06.perm,c07.random,c08.random', wq=8, wt=16, tiers=['thorough'], tag='rnd', crash_only=True, class_prefix='autoinit:poseidon:'),
        # valgrind memcheck on the AVX2 build (valgrind 3.19 cannot execute AVX512): definedness of every value that reaches a branch or a syscall
        J('h_poseidon', 'fast2', 300, 300, only='c07.random,c06.perm', wq=4, wt=4, tiers=['thorough'], tag='vg', wrap=['valgrind', '-q', '--error-exitcode=99', '--track-origins=no'], crash_only=True, class_prefix='valgrind:poseidon:'),
        J('h_cubic_batch', 'fast2', 2000, 2000, wq=4, wt=4, tiers=['thorough'], tag='vg', wrap=['valgrind', '-q', '--error-exitcode=99'], crash_only=True, class_prefix='valgrind:cubic-batch:', env={'PBT_NO_HUGE': '1'}),
        J('h_wrappers', 'fast2', 2000, 2000, only='c17.copy,c17.add,c17.sub,c17.mul,c17.mixed', wq=4, wt=4, tiers=['thorough'], tag='vg', wrap=['valgrind', '-q', '--error-exitcode=99'], crash_only=True, class_prefix='valgrind:wrappers:', env={'PBT_NO_HUGE': '1'}),
    ],
    rule='The generators of C03-C09, C13, C14, C16, C17, C19 re-run on AddressSanitizer + UndefinedBehaviorSanitizer builds (-O1, AVX2 and -D__AVX512__ configurations) with EXACT-SIZE heap allocations for every declared extent '
         '(inputs, outputs, scratch buffers, trees, strided arenas end at the last designated cell), so one element past any extent is a report; UBSan covers integer/shift/alignment/VLA-bound UB; alloc-dealloc-mismatch covers the destructors; '
         'transform cases run in forked children and end with object destruction followed by a LeakSanitizer check. A sanitizer report (child abort or worker death, attributed to the recorded current case) is the only failure counted here; '
         'wrong values are charged to the functional properties. Thorough adds -ftrivial-auto-var-init=pattern builds (results must still match the oracles) and valgrind memcheck on AVX2 samples. '
         'Non-trivial: as defined by the respective generators (smallest shapes: 1 row, 1 element, 0 columns, n < max domain, caller buffers are enumerated). distinct = distinct cases among non-trivial ones.',
    expected_classes=['ntt:cfg:n=1', 'ntt:cfg:no-op(size0/ncols0)', 'ntt:cfg:caller-buffer', 'ntt:hist:two-extendPol-with-different-N', 'poseidon:mt:one-row', 'poseidon:mt:zero-cols', 'poseidon:lh:empty',
                      'poseidon:merkletree_batch_avx512', 'cubic:batchInverse:len>64', 'wrappers:par:size-0'],
    technique='sanitizer-instrumented (ASan/UBSan/LSan) re-run of all structural generators with exact-size allocations, fork-per-case crash capture; auto-var-init metamorphic builds; valgrind memcheck samples',
    level_text='Memory-safety and UB are decided by executing the generated shapes of every structural property under sanitizers with allocations sized exactly to the documented extents; object lifetimes end every transform case.',
    level_note='Trusted: ASan/UBSan/LSan of g++ 12, valgrind 3.19. In-bounds stray reads that do not change any output are invisible (partly covered by the junk metamorphic relations of C07/C16/C17). Shift UB at n >= 2^31 is unreachable in memory.',
    assumptions=['documented shapes: scratch buffers of size*ncols, trees of getTreeNumElements(rows), power-of-two sizes'],
)
CFGS['tsan5'] = dict(cxx='g++', cflags=BASE + ' -O1 -g -mavx2 -mavx512f -D__AVX512__ -fsanitize=thread', ldflags='-pthread -fsanitize=thread', link_src=['engine/ompshim.cpp'],
                     env={'TSAN_OPTIONS': 'halt_on_error=1:abort_on_error=1:report_signal_unsafe=0'}, needs_avx512=True)
CFGS['ndbg2'] = dict(cxx='g++', cflags=BASE + ' -O3 -mavx2 -DNDEBUG', ldflags='-fopenmp')   # asserts compiled out (a build users make; nothing may depend on an assert's side effect)
CFGS['ndbg5'] = dict(cxx='g++', cflags=BASE + ' -O3 -mavx2 -mavx512f -D__AVX512__ -DNDEBUG', ldflags='-fopenmp', needs_avx512=True)
CFGS['init2'] = dict(cxx='g++', cflags=BASE + ' -O2 -mavx2 -ftrivial-auto-var-init=pattern', ldflags='-fopenmp')

HARNESSES['h_par'] = dict(src='h_par.cpp', deps=['harness/h_ntt.cpp', 'harness/h_poseidon.cpp'])

PROPS['C12'] = dict(
    title='Parallel regions are race-free; results independent of threads and schedule',
    jobs=[J('h_par', 'shim5', 60_000, 6_000_000, only='c12.transform,c12.merkle,c12.par', wq=8, wt=16, args=['--mode', 'seq'], tag='seq', class_prefix='seq:'),
          J('h_par', 'tsan2', 2400, 160_000, only='c12.transform,c12.merkle,c12.par', wq=16, wt=16, args=['--mode', 'threads'], tag='tsan', class_prefix='tsan:'),
          J('h_par', 'fast5', 6000, 600_000, only='c12.transform,c12.merkle,c12.par', wq=8, wt=16, args=['--mode', 'gomp'], tag='gomp', class_prefix='gomp:'),
          # cold starts: one forked child per case whose FIRST library call is the team execution (lazy first-use initialisation under concurrency);
          # separate processes, because a process that has already run OpenMP regions must not fork
          J('h_par', 'tsan2', 160, 16_000, only='c12.cold', wq=8, wt=16, args=['--mode', 'threads'], tag='cold-tsan', class_prefix='tsan:'),
          J('h_par', 'fast5', 320, 32_000, only='c12.cold', wq=8, wt=16, args=['--mode', 'gomp'], tag='cold-gomp', class_prefix='gomp:')],
    rule='The library is linked against a stand-in for libgomp (engine/ompshim.cpp; g++ needs only GOMP_parallel and five omp_* calls) so the harness owns the schedule. rapidcheck generates routine x shape x team size x member order: '
         'routine in {NTT, INTT, extendPol (C03-C05 configuration generator up to n=2^9), the eight Merkle builders (rows to 2^6, cols to 20, dim 1..3, batch sizes), parcpy, parSetZero (sizes to 5000)}, '
         'team size in {1..6,8,17,64} (fewer, equal, more members than loop iterations), member order in {identity, reversed, random permutation per region}. '
         '(a) sequential mode: team members of every parallel region run one after another in the generated order (a legal schedule: the regions contain no barriers); (b) pthread mode under ThreadSanitizer: members are real threads created by the stand-in, '
         'so every happens-before edge is instrumented (halt_on_error: a report kills the worker, the recorded current case becomes the counterexample); (c) real libgomp with team sizes up to 33. '
         'Oracle: output buffers bit-identical to the single-member execution (which itself is checked against the C03-C05 oracle for the transforms); zero TSan reports. '
         'Non-trivial: team size > 1 and at least one parallel region actually executed with more than one member. distinct = distinct (routine, shape, team, order) tuples.',
    expected_classes=['seq:team>1:sequential-permuted-order', 'tsan:team>1:pthreads(TSan)', 'gomp:team>1:real-libgomp', 'seq:routine:transform', 'seq:routine:merkle', 'seq:routine:parcpy/parSetZero',
                      'tsan:routine:transform', 'tsan:routine:merkle', 'tsan:routine:parcpy/parSetZero', 'seq:order:reversed', 'seq:order:random-permutation', 'seq:team:more-members-than-cores/iterations',
                      'seq:team:fewer-members-delivered-than-requested', 'tsan:cold-start:team-run-first', 'gomp:cold-start:team-run-first',
                      'tsan:transform:in-place-bit-reversal-path', 'tsan:transform:ncols>1024'],
    technique='schedule-controlled property-based testing: OpenMP runtime stand-in (permuted sequential member orders; pthreads under ThreadSanitizer), differential against single-member execution',
    level_text='The harness owns the schedule: thousands of generated member orders per run must reproduce the single-thread output bit for bit, and ThreadSanitizer watches real threads created by the stand-in on the same shapes.',
    level_note='Trusted: ThreadSanitizer (sees only accesses that executed), the stand-in implements the six runtime entry points g++ emits for these regions (static schedules are inlined by the compiler). Sequential orders do not explore sub-member interleavings; that half is TSan\'s.',
    assumptions=['parallel regions contain no barriers/critical sections (true for this library: only "parallel for")', 'team sizes <= 64'],
)

_PTXGEN = [['python3', '{ROOT}/engine/ptx2cpp.py', '{SRC}/gl64_t.cuh', '{SRC}/ntt_goldilocks.cuh', '{OUT}']]
for _n, _f in (('h_gl64_700', '-D__CUDA_ARCH__=700'), ('h_gl64_600', '-D__CUDA_ARCH__=600'),
               ('h_gl64_700p', '-D__CUDA_ARCH__=700 -DGL64_PARTIALLY_REDUCED'), ('h_gl64_600p', '-D__CUDA_ARCH__=600 -DGL64_PARTIALLY_REDUCED')):
    HARNESSES[_n] = dict(src='h_gl64.cpp', cflags=_f + ' -Wno-parentheses', pregen=_PTXGEN, exe_alias=_n)

PROPS['C20'] = dict(
    title='GPU field arithmetic and tables implement the same field as the CPU',
    level='other',
    jobs=[J(h, 'fast2', 3_000_000, 300_000_000, only='c20.op', wq=4, wt=8, class_prefix=h[7:] + ':') for h in ('h_gl64_700', 'h_gl64_600', 'h_gl64_700p', 'h_gl64_600p')] +
         [J('h_gl64_700', 'fast2', 1, 1, only='c20.tables', wq=1, wt=1, args=['--enumerate'], tag='tables', class_prefix='tables:')],
    rule='No GPU and no nvcc exist here: the SOURCE TEXT of gl64_t.cuh is executed under a semantic model. engine/ptx2cpp.py rewrites every asm("...") statement into host C++ over a 22-instruction PTX subset table (engine/ptx_sem.hpp; carry flag = poisoned value that traps when read before written); '
         'operators, to()/from() and reduce are compiled unchanged. Four builds: __CUDA_ARCH__ 700 and 600 x GL64_PARTIALLY_REDUCED off/on. rapidcheck generates (op, a, b) from the boundary / solved-operand pair generators (sum next to 2^64 and p, difference next to 0, product residue and high-word patterns): '
         'ops + - unary- * sqr *uint32 and the final reduction (+=, -=, *=, cneg forms too); canonical inputs for the fully reduced build except multiplicands (documented tolerance), any 64-bit values for the partially reduced one. Oracle: u128 reference, result must be the canonical value. '
         'Tables: all 3 x 33 rows of omegas, omegas_inv, domain_size_inverse parsed from ntt_goldilocks.cuh and compared with Goldilocks::w(i), its inverse (product = 1) and (2^i)^-1, plus primitivity of each root -- that part is an exhaustive enumeration. '
         'Non-trivial: every generated case (classified canonical / partially reduced operands). distinct = distinct (configuration, op, a, b).',
    expected_classes=['700:gl64:canonical-operands', '600:gl64:canonical-operands', '700p:gl64:partially-reduced-operand', '600p:gl64:partially-reduced-operand', 'tables:table-row', '700:a*b', '600:a*(uint32)b', '700p:final-reduction'],
    technique='property-based testing of the CUDA source executed under a PTX-subset semantic model (source-to-host translation), u128 oracle; exhaustive table comparison',
    level_text='Level "other": what is executed is a model of PTX semantics applied to the real source text, not the GPU. Within that model, millions of boundary-directed operand pairs per configuration are checked against the exact field result, and the device tables are compared row by row (exhaustively) with the CPU table.',
    level_note='Trusted base: the PTX subset table (22 instructions, carry-flag model) and the translator; nvcc code generation and the hardware are not covered. An instruction outside the subset stops the translator (build error = no verdict). operator>>= (malformed asm operand list), dot_product, reciprocal, heptaroot are outside the property and not asserted.',
    assumptions=['PTX semantics as modelled in engine/ptx_sem.hpp', 'fully reduced configuration receives canonical operands (except multiplicands)'],
    explanation='Executes gl64_t.cuh source text under a PTX-subset model in 4 configurations; exhaustive comparison of 99 device table rows with the CPU tables.',
)

# ---- libFuzzer targets (coverage-guided supplements, byte-level input domains) -------------------------------------------
CFGS['fuzz'] = dict(cxx='clang++', cflags='-std=gnu++17 -Wno-unused -fopenmp -O1 -g -mavx2 -fsanitize=fuzzer-no-link,address,undefined -fno-sanitize-recover=undefined',
                    ldflags='-fopenmp -fsanitize=fuzzer,address,undefined', env=dict(ASAN_ENV, OMP_NUM_THREADS='2'))
HARNESSES['fuzz_fromstring'] = dict(src='../fuzz/fuzz_fromstring.cpp', kind='fuzz', corpus='fuzz/corpus_fromstring')
HARNESSES['fuzz_ntt_history'] = dict(src='../fuzz/fuzz_ntt_history.cpp', kind='fuzz', corpus='fuzz/corpus_history', deps=['engine/ref.hpp'])
PROPS['C15']['jobs'].append(J('fuzz_fromstring', 'fuzz', 2_000_000, 80_000_000, wq=4, wt=16, max_len=120, tag='fuzz', class_prefix=''))
PROPS['C19']['jobs'].append(J('fuzz_ntt_history', 'fuzz', 40_000, 6_000_000, wq=4, wt=16, max_len=96, tag='fuzz', class_prefix=''))
PROPS['C15']['rule'] += (' Supplement: libFuzzer target fuzz_fromstring (bytes -> radix, text; GMP\'s own parser decides validity: valid integers must map to their floor residue through fromString and fromScalar and survive a toString round trip, '
                         'invalid strings must raise std::invalid_argument; ASan+UBSan; -runs bound, fresh corpus + 5 seed inputs; only crash artifacts count).')
PROPS['C19']['rule'] += (' Supplement: libFuzzer target fuzz_ntt_history (FuzzedDataProvider -> the same command grammar, state rebuilt per input, fresh-object and DFT/LDE oracle inside the target, ASan+UBSan).')

# ---- additions of the third strengthening round (appended to the rule texts) -------------------------------------------------------------------
PROPS['C06']['rule'] += (' Partial rounds are reached by back-solving too (c06.partial): the state entering partial round r (r = 0..21, or the state leaving the last one) is chosen and the permutation input computed through the inverse '
                         'rounds; the s-box output of lane 0 and one other lane are solved against the round\'s sparse-matrix coefficient so that the residue of the lane product, or the low 64 bits of the INTEGER product, sit on a boundary. '
                         'Pairs of states for the two-state AVX512 routine are also identical / equal in the rate part / equal in the capacity part / different in one element.')
PROPS['C06']['expected_classes'] += ['backsolved:partial-round-1..10', 'backsolved:partial-round-11..21', 'partial:integer-low-word-targeted-lane-product']
PROPS['C09']['rule'] += ' Inversions are followed by the inversion of an element differing in one coefficient (and the first one repeated); batchInverse lengths reach 65537 (4095..65537 odd and even).'
PROPS['C10']['rule'] += (' Every inversion is followed by the inversion of a closely related operand (neighbour, one bit flipped, same low / high word, negative) and repeated; half of the refusal cases re-execute the harness binary so that the '
                         'refused inversion is the very first inversion of a fresh process.')
PROPS['C10']['expected_classes'] += ['refuse:zero-operand(first inversion of a fresh process)', 'inv:second-call-related-operand']
for _p in ('C13', 'C14'):
    PROPS[_p]['rule'] += (' Coefficient arrays usually live at ONE persistent address per size and placement (same pointer, changing content) and are confined now and then to a bit-width band (8..63 bits, top-heavy) against large states; '
                          'under ASan the deliberately misaligned placement is kept (start 8 bytes off, exact end).')
PROPS['C16']['rule'] += (' Further call forms: both array inputs given by the same base pointer, strides >= 2^32 on sparse 32 GiB arenas (never for parameters declared 32-bit), output extents ending exactly at a guard page, per-lane index arrays that are '
                         'consecutive except for one lane or wrap round a cyclic window, coefficients with vanishing sums (c1+c2=0, c0+c1+c2=0, equal, embedded base elements).')
PROPS['C17']['rule'] += (' Further call forms (one per case, chosen by the generator): both array inputs are ONE array (same base pointer, two strides / index lists); the output array is the first input array (same designated positions); a by-value scalar '
                         'argument is passed as an lvalue living in a designated output cell (only for parameters declared by value); the output extent ends exactly at a guard page; strides >= 2^32 on sparse arenas.')
PROPS['C17']['expected_classes'] += ['form:both-inputs-one-array(same-pointer)', 'form:output-array-is-first-input(in-place)', 'form:by-value-scalar-lives-in-an-output-cell', 'shape:stride>=2^32']

# ---- concurrent callers (fourth strengthening round): the properties derived by pbt::concurrent_of ("<name>@mt": K = 4 threads inside the routine at once, each with
# its own operands and outputs) run on the plain build (wrong values) and on a ThreadSanitizer build (any unsynchronised shared access is a report)
def _mt(harness, fast, tsan, only, q, t, qt=None, tt=None):
    # (four workers in both tiers: each runs four caller threads, so sixteen threads use the sixteen cores; more would only make the callers wait for each other)
    return [J(harness, fast, q, t // 2, only=only, wq=4, wt=4, args=['--mt'], tag='mt', class_prefix='concurrent:'),
            J(harness, tsan, qt if qt is not None else max(200, q // 20), tt if tt is not None else max(2000, t // 40), only=only, wq=4, wt=4, args=['--mt'], tag='mt-tsan', class_prefix='concurrent-tsan:')]
_MT_RULE = (' Concurrent callers: the same generators also run as "<property>@mt": four threads call the routine at the same time, each with its own operands and outputs, six rounds from a common start; every thread checks '
            'its own results against the oracle (plain build) and ThreadSanitizer watches for unsynchronised shared accesses (hidden static buffers, one-entry caches, lazily built tables).')
PROPS['C01']['jobs'] += _mt('h_c01', 'fast2', 'tsan2', None, 200_000, 10_000_000)
PROPS['C02']['jobs'] += _mt('h_lanes', 'fast2', 'tsan2', 'c02', 200_000, 10_000_000)
PROPS['C11']['jobs'] += _mt('h_lanes', 'fast5', 'tsan5', 'c11', 200_000, 10_000_000)
PROPS['C13']['jobs'] += _mt('h_lanes', 'fast2', 'tsan2', 'c13', 60_000, 3_000_000)
PROPS['C14']['jobs'] += _mt('h_lanes', 'fast5', 'tsan5', 'c14', 60_000, 3_000_000)
PROPS['C06']['jobs'] += _mt('h_poseidon', 'fast5', 'tsan5', 'c06.perm,c06.backsolved,c06.partial', 40_000, 800_000)
PROPS['C07']['jobs'] += _mt('h_poseidon', 'fast5', 'tsan5', 'c07.random', 1_000, 8_000, qt=80, tt=400)
PROPS['C08']['jobs'] += _mt('h_poseidon', 'fast5', 'tsan5', 'c08.random', 500, 8_000, qt=120, tt=2_000)
PROPS['C09']['jobs'] += _mt('h_cubic', 'fast2', 'tsan2', None, 100_000, 5_000_000)
PROPS['C10']['jobs'] += _mt('h_scalar2', 'fast2', 'tsan2', 'c10', 100_000, 5_000_000)
PROPS['C15']['jobs'] += _mt('h_scalar2', 'fast2', 'tsan2', 'c15', 200_000, 10_000_000)
PROPS['C16']['jobs'] += _mt('h_cubic_batch', 'fast5', 'tsan5', None, 40_000, 600_000, qt=4_000, tt=40_000)
PROPS['C17']['jobs'] += _mt('h_wrappers', 'fast5', 'tsan5', None, 30_000, 600_000, qt=3_000, tt=40_000)
for _p in ('C01', 'C02', 'C06', 'C07', 'C08', 'C09', 'C10', 'C11', 'C13', 'C14', 'C15', 'C16', 'C17'):
    PROPS[_p]['rule'] += _MT_RULE
    PROPS[_p]['expected_classes'] = list(PROPS[_p].get('expected_classes', [])) + ['concurrent:callers:several-threads-inside-the-routine-at-once']
for _p, _o in (('C03', 'c03.random'), ('C04', 'c04.random'), ('C05', 'c05.random')):
    PROPS[_p]['jobs'] += _mt('h_ntt', 'fast2', 'tsan2', _o, 1_200, 60_000, qt=200, tt=3_000)
    PROPS[_p]['rule'] += _MT_RULE
    PROPS[_p]['expected_classes'] = list(PROPS[_p].get('expected_classes', [])) + ['concurrent:callers:several-threads-inside-the-routine-at-once']

# ---- -DNDEBUG builds (asserts compiled out) for the remaining properties: a tenth of the main random budget each
def _nd(harness, cfg, only, q, t, **kw):
    return [J(harness, cfg, q, t, only=only, wq=4, wt=16, tag='ndebug', class_prefix='ndebug-build:', **kw)]
PROPS['C01']['jobs'] += _nd('h_c01', 'ndbg2', None, 1_000_000, 50_000_000)
PROPS['C02']['jobs'] += _nd('h_lanes', 'ndbg2', 'c02', 400_000, 20_000_000)
PROPS['C11']['jobs'] += _nd('h_lanes', 'ndbg5', 'c11', 400_000, 20_000_000)
PROPS['C13']['jobs'] += _nd('h_lanes', 'ndbg2', 'c13', 100_000, 5_000_000)
PROPS['C14']['jobs'] += _nd('h_lanes', 'ndbg5', 'c14', 100_000, 5_000_000)
PROPS['C06']['jobs'] += _nd('h_poseidon', 'ndbg5', 'c06.perm,c06.backsolved,c06.partial', 100_000, 5_000_000)
PROPS['C07']['jobs'] += _nd('h_poseidon', 'ndbg5', 'c07.lengths', 1, 1, args=['--enumerate', '--level', '0']) + _nd('h_poseidon', 'ndbg2', 'c07.lengths', 1, 1, args=['--enumerate', '--level', '0'])
PROPS['C09']['jobs'] += _nd('h_cubic', 'ndbg2', None, 300_000, 15_000_000)
PROPS['C10']['jobs'] += _nd('h_scalar2', 'ndbg2', 'c10', 300_000, 15_000_000)
PROPS['C15']['jobs'] += _nd('h_scalar2', 'ndbg2', 'c15', 1_000_000, 50_000_000)
PROPS['C16']['jobs'] += _nd('h_cubic_batch', 'ndbg5', None, 150_000, 8_000_000)
PROPS['C17']['jobs'] += _nd('h_wrappers', 'ndbg5', None, 150_000, 8_000_000)

# ---- concurrent FIRST use: the same "@mt" properties with every case in a freshly forked child of a parent that has not touched the library
# (static-initialisation probes switched off): whatever a routine builds lazily on first use is built while several callers are inside it
def _mtcold(harness, cfg, only, q, t):
    return [J(harness, cfg, q, t // 2, only=only, wq=4, wt=4, args=['--mt', '--forkall'], env={'PBT_NO_EARLY': '1'}, tag='mt-cold', class_prefix='concurrent-first-use:')]
PROPS['C01']['jobs'] += _mtcold('h_c01', 'fast2', None, 4_000, 200_000)
PROPS['C09']['jobs'] += _mtcold('h_cubic', 'fast2', 'c09.op', 4_000, 200_000)
PROPS['C10']['jobs'] += _mtcold('h_scalar2', 'fast2', 'c10', 8_000, 400_000)
PROPS['C15']['jobs'] += _mtcold('h_scalar2', 'fast2', 'c15', 4_000, 200_000)

# C12 also owns the question "may two calls be in flight at once": transforms, tree builders and bulk copies entered by several application threads
# (each with its own objects and buffers) -- the same @mt properties as above, charged to C12 as well
PROPS['C12']['jobs'] += [J('h_ntt', 'tsan2', 300, 3_000, only='c03.random,c04.random,c05.random', wq=4, wt=4, args=['--mt'], tag='app-threads-tsan', class_prefix='app-threads-tsan:'),
                         J('h_ntt', 'fast2', 1_500, 30_000, only='c03.random,c04.random,c05.random', wq=4, wt=4, args=['--mt'], tag='app-threads', class_prefix='app-threads:'),
                         J('h_poseidon', 'tsan5', 120, 2_000, only='c08.random', wq=4, wt=4, args=['--mt'], tag='app-threads-merkle-tsan', class_prefix='app-threads-tsan:'),
                         J('h_poseidon', 'fast5', 500, 8_000, only='c08.random', wq=4, wt=4, args=['--mt'], tag='app-threads-merkle', class_prefix='app-threads:'),
                         J('h_wrappers', 'tsan5', 500, 20_000, only='c17.par', wq=4, wt=4, args=['--mt'], tag='app-threads-par-tsan', class_prefix='app-threads-tsan:')]
PROPS['C12']['rule'] += _MT_RULE
# the AVX2 kernels as compiled into an AVX512 build (code under #ifdef __AVX512__ inside the AVX2 header)
PROPS['C13']['jobs'] += [J('h_lanes', 'fast5', 300_000, 15_000_000, only='c13', wq=4, wt=16, tag='avx512-build', class_prefix='avx512-build:')]
PROPS['C02']['jobs'] += [J('h_lanes', 'fast5', 600_000, 1, only='c02', wq=4, wt=16, tiers=['quick'], tag='avx512-build', class_prefix='avx512-build:')]

# technique / level texts: mention the program-context dimensions added in rounds 3 and 4
for _p in ('C01', 'C02', 'C03', 'C04', 'C05', 'C06', 'C07', 'C08', 'C09', 'C10', 'C11', 'C13', 'C14', 'C15', 'C16', 'C17'):
    PROPS[_p]['technique'] += '; the same generators run as concurrent callers (four threads inside the routine at once) on plain and ThreadSanitizer builds, and on -DNDEBUG builds'
PROPS['C12']['technique'] += '; transforms, tree builders and bulk copies entered by several application threads at once (plain + ThreadSanitizer builds)'
for _p in ('C01', 'C09', 'C10', 'C15'):
    PROPS[_p]['technique'] += '; static-initialisation-time probe of the scalar routines'
