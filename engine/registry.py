# Registry: build configurations, harnesses and the jobs that decide each property.
# (Read by ./check; keep it declarative.)

BASE = '-std=gnu++17 -Wno-unused -fopenmp'
SAN = '-O1 -g -fno-omit-frame-pointer -fsanitize=address,undefined -fno-sanitize-recover=undefined'
ASAN_ENV = {'ASAN_OPTIONS': 'detect_leaks=1:alloc_dealloc_mismatch=1:abort_on_error=1:detect_stack_use_after_return=0',
            'UBSAN_OPTIONS': 'print_stacktrace=1:halt_on_error=1'}

CFGS = {
    # the Makefile's flags (testcpu): g++ -O3 -mavx2 -fopenmp, asserts live
    'fast2': dict(cxx='g++', cflags=BASE + ' -O3 -mavx2', ldflags='-fopenmp'),
    # the configuration the shipped suite never compiles
    'fast5': dict(cxx='g++', cflags=BASE + ' -O3 -mavx2 -mavx512f -D__AVX512__', ldflags='-fopenmp', needs_avx512=True),
    'san2': dict(cxx='g++', cflags=BASE + ' -mavx2 ' + SAN, ldflags='-fopenmp -fsanitize=address,undefined', env=ASAN_ENV),
    'san5': dict(cxx='g++', cflags=BASE + ' -mavx2 -mavx512f -D__AVX512__ ' + SAN, ldflags='-fopenmp -fsanitize=address,undefined', env=ASAN_ENV, needs_avx512=True),
    # OpenMP regions compiled by g++ but executed by our runtime stand-in (harness owns the schedule)
    'shim2': dict(cxx='g++', cflags=BASE + ' -O2 -mavx2', ldflags='-pthread', link_src=['engine/ompshim.cpp']),
    'shim5': dict(cxx='g++', cflags=BASE + ' -O2 -mavx2 -mavx512f -D__AVX512__', ldflags='-pthread', link_src=['engine/ompshim.cpp'], needs_avx512=True),
    'tsan2': dict(cxx='g++', cflags=BASE + ' -O1 -g -mavx2 -fsanitize=thread', ldflags='-pthread -fsanitize=thread', link_src=['engine/ompshim.cpp'],
                  env={'TSAN_OPTIONS': 'halt_on_error=1:abort_on_error=1:report_signal_unsafe=0'}),
}

HARNESSES = {
    'h_c01': dict(src='h_c01.cpp'),
}


def J(harness, cfg, quick, thorough, only=None, wq=8, wt=16, **kw):
    d = dict(harness=harness, cfg=cfg, cases=dict(quick=quick, thorough=thorough), workers=dict(quick=wq, thorough=wt))
    if only:
        d['only'] = only
    d.update(kw)
    return d


PROPS = {}
NOT_APPLICABLE = {}   # property id -> reason (only for properties this technique cannot decide)
HOOK_COMMITS = []     # no guarded hooks in /repo

PROPS['C01'] = dict(
    title='Scalar field ops are exact mod p on every 64-bit representation',
    level='exploration',
    jobs=[J('h_c01', 'fast2', 16_000_000, 1_600_000_000)],
    rule='rapidcheck-generated (a,b[,alias]) per op from boundary classes (canonical edges, non-canonical band [p,2^64), 32-bit hi/lo patterns, 2^k+-d) '
         'and SOLVED second operands (sum/difference next to 2^64, p, 2^64+p; product residue next to 0, 2^32, p; product high word on 32-bit edge patterns). '
         'Oracle: (a op b) mod p in unsigned __int128, cross-checked with GMP on every case. A case is non-trivial when an operand is non-canonical, '
         'an alias pattern is used, or the carry-chain model says a correction path fires (first/second carry, borrow, final borrow of mul, inc/dec branches). '
         'distinct = distinct (op,a,b,alias) tuples among non-trivial cases (hash set, capped per worker).',
    expected_classes=['add:first-carry', 'add:second-carry', 'sub:first-borrow', 'sub:second-borrow', 'mul:carry-after-fold', 'mul:final-borrow',
                      'inc:p-2', 'inc:p-1->0', 'dec:0->p-1', 'dec:p', 'alias:out==a', 'alias:out==b', 'alias:a==b', 'alias:all-same', 'mulScalar:scalar>=p'],
    technique='rapidcheck property-based testing: boundary/solved-operand generators vs u128+GMP reference oracle, metamorphic residue-class relation',
    level_text='Generated-input search (16M cases quick, 1.6G thorough) over constructed boundary classes with an independent exact oracle; every carry/borrow correction path is hit thousands of times and counted. Not a proof: the 2^128 operand space is sampled through constructed windows.',
    level_note='Trusted: unsigned __int128 % and GMP (cross-checked on every case); g++ -O3 -mavx2 build as shipped. A defect keyed on a value outside all generated classes stays invisible.',
    assumptions=['reference arithmetic: unsigned __int128 with % and GMP mpz (cross-checked against each other)',
                 'build flags of the shipped test target (g++ -O3 -mavx2 -fopenmp, asserts live)'],
)
