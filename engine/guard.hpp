// Exact-extent buffers for "reads only what its sizes/strides designate":
//   * plain builds: the buffer ends exactly at a PROT_NONE guard page, so a read or write one element past the
//     declared extent is a SIGSEGV (the forked child / the worker dies; the recorded current case is the counterexample)
//   * AddressSanitizer builds: an exact-size malloc block (red zones on both sides, byte accurate)
#pragma once
#include <cstdint>
#include <cstdlib>
#include <cstring>
#include <sys/mman.h>
#include <unistd.h>

namespace guard {
#if defined(__SANITIZE_ADDRESS__)
static const bool SAN = true;
#else
static const bool SAN = false;
#endif
struct Buf {
    void *base = nullptr; size_t maplen = 0; char *p = nullptr; size_t bytes = 0; bool sparse = false, failed = false;
    static int &map_failures() { static thread_local int n = 0; return n; }
    Buf() {}
    explicit Buf(size_t nbytes, size_t slack_before_guard = 0) { alloc(nbytes, slack_before_guard); }
    Buf(const Buf &) = delete; Buf &operator=(const Buf &) = delete;
    void alloc(size_t nbytes, size_t slack = 0)
    {
        release();
        bytes = nbytes; failed = false;
        sparse = nbytes >= ((size_t)1 << 26);   // huge extents (strides >= 2^32): a sparse MAP_NORESERVE mapping, only touched pages exist
        if (SAN && !sparse) { base = malloc(nbytes + slack ? nbytes + slack : 1); p = (char *)base + slack; maplen = 0; return; } // (slack: deliberate misalignment of the start; the end stays exact)
        size_t pg = (size_t)sysconf(_SC_PAGESIZE);
        size_t len = ((nbytes + slack + pg - 1) / pg) * pg; if (len == 0) len = pg;
        base = mmap(nullptr, len + pg, PROT_READ | PROT_WRITE, MAP_PRIVATE | MAP_ANONYMOUS | (sparse ? MAP_NORESERVE : 0), -1, 0);
        if (base == MAP_FAILED) { base = nullptr; p = nullptr; if (sparse) { failed = true; map_failures()++; return; } abort(); } // (a sparse arena the system refuses: the case is skipped by the caller, never a verdict)
        mprotect((char *)base + len, pg, PROT_NONE);
        maplen = len + pg;
        p = (char *)base + len - nbytes - slack;
    }
    void release()
    {
        if (!base) return;
        if (maplen == 0) free(base); else munmap(base, maplen);
        base = nullptr; p = nullptr;
    }
    ~Buf() { release(); }
    template <typename T> T *as() { return (T *)p; }
};
} // namespace guard
