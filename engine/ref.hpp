// Reference model for Z/p, p = 2^64 - 2^32 + 1, and structures on top of it.
// Shares no code with the library: plain unsigned __int128 arithmetic with '%',
// schoolbook polynomial arithmetic, naive DFT, Horner evaluation.
// (Poseidon reference lives in ref_poseidon.hpp because it needs the library's tables.)
#pragma once
#include <cstdint>
#include <cstring>
#include <vector>
#include <array>

namespace ref {
typedef unsigned __int128 u128;
static const uint64_t PR = 0xFFFFFFFF00000001ULL;

static inline uint64_t can(uint64_t a) { return a % PR; }
static inline uint64_t add(uint64_t a, uint64_t b) { return (uint64_t)(((u128)a + b) % PR); }
static inline uint64_t sub(uint64_t a, uint64_t b) { return (uint64_t)(((u128)(a % PR) + PR - (b % PR)) % PR); }
static inline uint64_t mul(uint64_t a, uint64_t b) { return (uint64_t)((u128)a * b % PR); }
static inline uint64_t neg(uint64_t a) { return (PR - a % PR) % PR; }
static inline uint64_t pw(uint64_t b, uint64_t e)
{
    uint64_t r = 1; b = can(b);
    while (e) { if (e & 1) r = mul(r, b); b = mul(b, b); e >>= 1; }
    return r;
}
static inline uint64_t inv(uint64_t a) { return pw(a, PR - 2); }
static inline uint64_t pow7(uint64_t x) { uint64_t x2 = mul(x, x), x4 = mul(x2, x2), x3 = mul(x2, x); return mul(x4, x3); }

// ---- cubic extension F_p[x]/(x^3 - x - 1) -------------------------------------------------
typedef std::array<uint64_t, 3> E3;
static inline E3 can3(const E3 &a) { return {can(a[0]), can(a[1]), can(a[2])}; }
static inline E3 add3(const E3 &a, const E3 &b) { return {add(a[0], b[0]), add(a[1], b[1]), add(a[2], b[2])}; }
static inline E3 sub3(const E3 &a, const E3 &b) { return {sub(a[0], b[0]), sub(a[1], b[1]), sub(a[2], b[2])}; }
static inline E3 neg3(const E3 &a) { return {neg(a[0]), neg(a[1]), neg(a[2])}; }
// schoolbook: c = sum a_i b_j x^(i+j); x^3 = x + 1; x^4 = x^2 + x
static inline E3 mul3(const E3 &a, const E3 &b)
{
    uint64_t c[5] = {0, 0, 0, 0, 0};
    for (int i = 0; i < 3; i++)
        for (int j = 0; j < 3; j++)
            c[i + j] = add(c[i + j], mul(a[i], b[j]));
    // x^4 -> x^2 + x ; x^3 -> x + 1
    uint64_t r0 = add(c[0], c[3]);
    uint64_t r1 = add(add(c[1], c[3]), c[4]);
    uint64_t r2 = add(c[2], c[4]);
    return {r0, r1, r2};
}
static inline E3 scale3(const E3 &a, uint64_t s) { return {mul(a[0], s), mul(a[1], s), mul(a[2], s)}; }
static inline bool isone3(const E3 &a) { return can(a[0]) == 1 && can(a[1]) == 0 && can(a[2]) == 0; }
static inline bool iszero3(const E3 &a) { return can(a[0]) == 0 && can(a[1]) == 0 && can(a[2]) == 0; }

// ---- transforms -----------------------------------------------------------------------------
static inline int lg(uint64_t n) { int k = 0; while ((1ull << k) < n) k++; return k; }

// naive DFT: out[k] = scale * sum_j in[j] * w^(j*k), one column. n power of two, w primitive n-th root.
static inline std::vector<uint64_t> dft_naive(const std::vector<uint64_t> &in, uint64_t w, uint64_t scale)
{
    uint64_t n = in.size();
    std::vector<uint64_t> wp(n ? n : 1);
    wp[0] = 1;
    for (uint64_t i = 1; i < n; i++) wp[i] = mul(wp[i - 1], w);
    std::vector<uint64_t> out(n);
    for (uint64_t k = 0; k < n; k++) {
        uint64_t acc = 0;
        for (uint64_t j = 0; j < n; j++) acc = add(acc, mul(in[j], wp[(j * k) % n]));
        out[k] = mul(acc, scale);
    }
    return out;
}
// reference recursive radix-2 FFT (decimation in time), independent of the library's schedule.
static inline void fft_rec(std::vector<uint64_t> &a, uint64_t w)
{
    uint64_t n = a.size();
    if (n <= 1) return;
    std::vector<uint64_t> ev(n / 2), od(n / 2);
    for (uint64_t i = 0; i < n / 2; i++) { ev[i] = a[2 * i]; od[i] = a[2 * i + 1]; }
    uint64_t w2 = mul(w, w);
    fft_rec(ev, w2); fft_rec(od, w2);
    uint64_t t = 1;
    for (uint64_t k = 0; k < n / 2; k++) {
        uint64_t x = mul(t, od[k]);
        a[k] = add(ev[k], x);
        a[k + n / 2] = sub(ev[k], x);
        t = mul(t, w);
    }
}
static inline std::vector<uint64_t> dft(const std::vector<uint64_t> &in, uint64_t w, uint64_t scale)
{
    if (in.size() <= 64) return dft_naive(in, w, scale);
    std::vector<uint64_t> a(in.size());
    for (size_t i = 0; i < in.size(); i++) a[i] = can(in[i]);
    fft_rec(a, w);
    for (auto &x : a) x = mul(x, scale);
    return a;
}
static inline uint64_t horner(const std::vector<uint64_t> &coef, uint64_t x)
{
    uint64_t acc = 0;
    for (size_t j = coef.size(); j-- > 0;) acc = add(mul(acc, x), coef[j]);
    return acc;
}
} // namespace ref
