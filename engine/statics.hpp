// "writes only the designated output positions": besides the sentinel-checked arenas, a routine must not leave traces in STATIC storage
// (a hidden scratch buffer, a memo).  This helper checksums the writable static segments (.data/.bss) of the running executable, so a
// harness can compare the checksum right before and right after ONE library call (nothing of the harness runs in between).
// The first call of a routine is never measured (one-time initialisation of function-local statics is legitimate).
#pragma once
#include <cstdint>
#include <cstdio>
#include <cstring>
#include <string>
#include <vector>
#include <unistd.h>
#include <limits.h>

namespace statics {
struct Seg { const uint64_t *lo, *hi; };
inline const std::vector<Seg> &segments()
{
    static std::vector<Seg> segs;
    static bool done = false;
    if (done) return segs;
    done = true;
    char exe[PATH_MAX]; ssize_t n = readlink("/proc/self/exe", exe, sizeof exe - 1); if (n <= 0) return segs; exe[n] = 0;
    FILE *f = fopen("/proc/self/maps", "r"); if (!f) return segs;
    char line[PATH_MAX + 128]; unsigned long prev_hi = 0; bool prev_exe_rw = false;
    while (fgets(line, sizeof line, f)) {
        unsigned long lo, hi; char perms[8]; char path[PATH_MAX] = "";
        if (sscanf(line, "%lx-%lx %7s %*s %*s %*s %[^\n]", &lo, &hi, perms, path) < 3) continue;
        bool rw = perms[0] == 'r' && perms[1] == 'w';
        bool is_exe = strcmp(path, exe) == 0;
        bool bss = path[0] == 0 && rw && prev_exe_rw && lo == prev_hi; // anonymous continuation of the executable's data segment = .bss
        if (rw && (is_exe || bss)) segs.push_back({(const uint64_t *)lo, (const uint64_t *)hi});
        prev_exe_rw = rw && (is_exe || bss); prev_hi = hi;
    }
    fclose(f);
    return segs;
}
inline uint64_t checksum()
{
    uint64_t h = 0x9E3779B97F4A7C15ull;
    for (const Seg &s : segments()) for (const uint64_t *p = s.lo; p < s.hi; p++) h = (h ^ *p) * 0x100000001B3ull + (h >> 29);
    return h;
}
inline size_t bytes() { size_t n = 0; for (const Seg &s : segments()) n += (size_t)((const char *)s.hi - (const char *)s.lo); return n; }
} // namespace statics
