// Property-based-testing plumbing shared by every harness:
//   * Case: a flat, serialisable test case (operation id + vector of 64-bit words)
//   * PropDef: one generated property = rapidcheck generator + executable oracle ("body")
//   * run loop on rapidcheck's checkProperty with explicit TestParams (seed, case count),
//     capture of the shrunk counterexample, optional fork-per-case execution so that
//     aborts / segfaults / sanitizer reports become ordinary shrinkable failures
//   * measured coverage: per-class counters, a hash set of distinct non-trivial cases,
//     written-out samples, JSON fragment for the driver
//   * --replay: run one saved case directly through the body, bypassing rapidcheck
#pragma once
#include <rapidcheck.h>
#include <thread>
#include <atomic>
#include <cstdint>
#include <cstdio>
#include <cstdlib>
#include <cstring>
#include <string>
#include <vector>
#include <map>
#include <unordered_set>
#include <functional>
#include <sstream>
#include <fstream>
#include <iostream>
#include <chrono>
#include <unistd.h>
#include <sched.h>
#include <fcntl.h>
#include <signal.h>
#include <sys/mman.h>
#include <sys/wait.h>
#include <sys/time.h>

#if defined(__SANITIZE_ADDRESS__)
extern "C" int __lsan_do_recoverable_leak_check(void);
#endif

namespace pbt {

struct Case {
    std::string prop;           // PropDef name
    std::vector<uint64_t> v;    // positional payload, meaning defined by the property
    std::string str() const
    {
        std::string s = prop;
        char b[32];
        for (uint64_t x : v) { snprintf(b, sizeof b, " 0x%llx", (unsigned long long)x); s += b; }
        return s;
    }
    static bool parse(const std::string &line, Case &c)
    {
        std::istringstream is(line);
        if (!(is >> c.prop)) return false;
        c.v.clear();
        std::string t;
        while (is >> t) c.v.push_back(strtoull(t.c_str(), nullptr, 0));
        return true;
    }
    uint64_t hash() const
    {
        uint64_t h = 1469598103934665603ull;
        for (char ch : prop) { h ^= (unsigned char)ch; h *= 1099511628211ull; }
        for (uint64_t x : v) { h ^= x; h *= 1099511628211ull; h ^= h >> 29; }
        return h;
    }
};
inline std::ostream &operator<<(std::ostream &os, const Case &c) { return os << c.str(); }

// Per-case context handed to the body: classification and the non-trivial flag.
struct Ctx {
    std::vector<const char *> classes;
    bool nontrivial = false;
    std::string why;            // failure explanation
    void cls(const char *name) { classes.push_back(name); }
    void nt(const char *name) { nontrivial = true; classes.push_back(name); }
    bool fail(const std::string &w) { why = w; return false; }
};

typedef std::function<bool(const Case &, Ctx &)> Body;
typedef std::string (*Describe)(const Case &);

struct PropDef {
    std::string name;
    std::function<rc::Gen<std::vector<uint64_t>>()> gen;
    Body body;
    double weight;       // share of the --cases budget
    bool forked;         // run each case in a forked child
    Describe describe;   // human readable rendering for samples (may be null)
    int max_size;        // rapidcheck max size
    // optional exhaustive enumeration of a finite configuration space (used with --enumerate):
    // enum_count() cases, enum_at(i) builds the i-th payload
    std::function<uint64_t()> enum_count = nullptr;
    std::function<std::vector<uint64_t>(uint64_t)> enum_at = nullptr;
    // the body keeps no state of its own between or across calls (no static buffers, no probes of process-wide state): it may be run by several
    // threads at once; harness_main then derives the property "<name>@mt" (concurrent callers, selected with --mt)
    bool mt_ok = false;
};
// true while a body runs as one of several concurrent callers (bodies use it to leave out features that are not meant for that: persistent
// buffers shared between cases, the static-storage checksum)
inline bool &in_concurrent() { static thread_local bool f = false; return f; }
// K payloads of the base property, run by K threads at the same time, each thread checking its own results (ROUNDS repetitions from a common start):
// a pure function must give every caller its own result no matter who else is inside it (hidden static scratch buffers, one-entry caches, lazily
// initialised tables). Under ThreadSanitizer the mere existence of an unsynchronised shared access is reported; on plain builds wrong values are.
inline PropDef concurrent_of(const PropDef &b, int K = 4, int rounds = 6)
{
    PropDef p;
    p.name = b.name + "@mt"; p.weight = b.weight; p.forked = false; p.describe = nullptr; p.max_size = b.max_size;
    auto bgen = b.gen; Body bb = b.body; std::string bname = b.name;
    p.gen = [bgen, K] {
        // half of the cases: every caller has its own operands; the other half: all callers pass the SAME operand values (each in its own
        // storage) -- a lazily initialised table or a cache keyed on the operands is then first touched by all of them at once
        return rc::gen::apply([K](const std::vector<std::vector<uint64_t>> &vs, int same) {
            std::vector<uint64_t> out; out.push_back(vs.size());
            for (auto &v : vs) { const std::vector<uint64_t> &w = same ? vs[0] : v; out.push_back(w.size()); out.insert(out.end(), w.begin(), w.end()); }
            return out; }, rc::gen::container<std::vector<std::vector<uint64_t>>>((std::size_t)K, bgen()), rc::gen::inRange(0, 2));
    };
    p.body = [bb, bname, rounds](const Case &c, Ctx &ctx) -> bool {
        std::vector<Case> subs; size_t pos = 1;
        for (uint64_t k = 0; k < c.v[0] && pos < c.v.size(); k++) { size_t len = (size_t)c.v[pos++]; Case s; s.prop = bname; s.v.assign(c.v.begin() + pos, c.v.begin() + pos + len); pos += len; subs.push_back(s); }
        const int K = (int)subs.size();
        std::vector<std::string> whys(K); std::vector<char> ok(K, 1); std::atomic<int> ready{0};
        auto worker = [&](int i) {
            in_concurrent() = true; ready++;
            for (int spin = 0; ready.load() < K; spin++) { if (spin > 2000) sched_yield(); } /* common start (yielding: the callers may outnumber the cores) */
            for (int r = 0; r < rounds && ok[i]; r++) { Ctx local; if (!bb(subs[i], local)) { ok[i] = 0; whys[i] = local.why; } }
            in_concurrent() = false;
        };
        std::vector<std::thread> th;
        for (int i = 0; i < K; i++) th.emplace_back(worker, i);
        for (auto &t : th) t.join();
        ctx.nt("callers:several-threads-inside-the-routine-at-once");
        for (int i = 0; i < K; i++) if (!ok[i]) return ctx.fail("caller " + std::to_string(i) + " of " + std::to_string(K) + " concurrent callers (each thread with its own operands and its own output): " + whys[i] + " [its case: " + subs[i].str() + "]");
        return true;
    };
    return p;
}

struct Stats {
    uint64_t evaluations = 0, shrink_evals = 0, nontrivial = 0, excluded = 0;
    std::map<std::string, uint64_t> classes;
    std::unordered_set<uint64_t> distinct;
    std::map<std::string, std::vector<std::string>> samples; // class -> few samples
    std::map<std::string, uint64_t> per_prop;
    static const size_t DISTINCT_CAP = 1u << 19;
    bool capped = false;
};
inline Stats &stats() { static Stats s; return s; }

inline std::string jesc(const std::string &s)
{
    std::string o;
    for (char c : s) {
        if (c == '"' || c == '\\') { o += '\\'; o += c; }
        else if (c == '\n') o += "\\n";
        else if ((unsigned char)c < 0x20) { char b[8]; snprintf(b, sizeof b, "\\u%04x", c); o += b; }
        else o += c;
    }
    return o;
}

struct Failure { std::string prop, casestr, why, desc; std::vector<std::string> history; /* cases executed in this process right before the failing one */ };

// ---- fork-per-case ------------------------------------------------------------------------
struct Shared {
    int status;          // 0 = not finished, 1 = ok, 2 = property failed
    int nontrivial;
    int nclasses;
    char classes[24][64];
    char why[3000];
};
inline Shared *shared_page()
{
    static Shared *p = nullptr;
    if (!p) p = (Shared *)mmap(nullptr, sizeof(Shared), PROT_READ | PROT_WRITE, MAP_SHARED | MAP_ANONYMOUS, -1, 0);
    return p;
}
inline int &fork_timeout() { static int t = 120; return t; }

inline bool run_forked(const Body &body, const Case &c, Ctx &ctx)
{
    Shared *sh = shared_page();
    memset(sh, 0, sizeof *sh);
    char errpath[64];
    snprintf(errpath, sizeof errpath, "/dev/shm/pbt_err_%d", (int)getpid());
    fflush(stdout); fflush(stderr);
    pid_t pid = fork();
    if (pid == 0) {
        int fd = open(errpath, O_WRONLY | O_CREAT | O_TRUNC, 0600);
        if (fd >= 0) { dup2(fd, 2); close(fd); }
        signal(SIGALRM, SIG_DFL); // (the parent's watchdog handler is inherited; the child wants the default: die)
        alarm(fork_timeout());
        Ctx cc;
        bool ok = body(c, cc);
        sh->nontrivial = cc.nontrivial;
        sh->nclasses = 0;
        for (auto *n : cc.classes) { if (sh->nclasses < 24) { strncpy(sh->classes[sh->nclasses], n, 63); sh->nclasses++; } }
        strncpy(sh->why, cc.why.c_str(), sizeof(sh->why) - 1);
#if defined(__SANITIZE_ADDRESS__)
        // object lifetimes: everything the case allocated through the library must be released by now
        if (ok && getenv("PBT_LEAKCHECK") && __lsan_do_recoverable_leak_check()) { ok = false; strncpy(sh->why, "LeakSanitizer: memory allocated during the case was never released (see stderr)", sizeof(sh->why) - 1); }
#endif
        sh->status = ok ? 1 : 2;
        fflush(stderr);
        _exit(0);
    }
    int st = 0;
    waitpid(pid, &st, 0);
    static std::vector<std::string> interned;
    ctx.nontrivial = sh->nontrivial;
    for (int i = 0; i < sh->nclasses; i++) {
        // intern class names (ctx keeps const char*)
        const char *found = nullptr;
        for (auto &s : interned) if (s == sh->classes[i]) { found = s.c_str(); break; }
        if (!found) { interned.reserve(4096); interned.push_back(sh->classes[i]); found = interned.back().c_str(); }
        ctx.classes.push_back(found);
    }
    bool ok;
    if (WIFEXITED(st) && WEXITSTATUS(st) == 0 && sh->status == 1) ok = true;
    else {
        ok = false;
        std::string err;
        { std::ifstream f(errpath); std::stringstream ss; ss << f.rdbuf(); err = ss.str(); if (err.size() > 1500) err = err.substr(0, 1500) + "..."; }
        if (sh->status == 2) ctx.why = sh->why;
        else if (WIFSIGNALED(st)) {
            int sg = WTERMSIG(st);
            ctx.why = std::string("process died: signal ") + std::to_string(sg) + (sg == SIGALRM ? " (no termination within timeout)" : sg == SIGABRT ? " (abort/assert)" : sg == SIGSEGV ? " (SIGSEGV)" : "") + " stderr: " + err;
        } else ctx.why = "process exited with status " + std::to_string(WEXITSTATUS(st)) + " before finishing the case; stderr: " + err;
    }
    unlink(errpath);
    return ok;
}

// ---- the run loop -------------------------------------------------------------------------
struct Options {
    uint64_t cases = 1000, seed = 1, worker = 0;
    std::string out, replay, only, hashdump, faildir = ".";
    bool mt = false;   // --mt: run the derived concurrent-caller properties ("<name>@mt") instead of the plain ones
    std::vector<std::string> excludes;
    bool nofork = false, forkall = false, enumerate = false, crash_only = false;
    uint64_t nworkers = 1, enum_stride = 1;
    int level = 0;
    std::string casefile;
};
// "current case" record: lets the driver attribute a crash of an in-process run to a case
inline char *&casefile_map() { static char *m = nullptr; return m; }
static const size_t CASEFILE_SZ = 1 << 16;
inline void casefile_note(const Case &c)
{
    char *m = casefile_map();
    if (!m) return;
    std::string s = c.str();
    if (s.size() >= CASEFILE_SZ - 1) s.resize(CASEFILE_SZ - 2);
    memcpy(m, s.c_str(), s.size() + 1);
}
inline Options &opts() { static Options o; return o; }
inline bool excluded_tag(const std::string &t)
{
    for (auto &e : opts().excludes) if (e == t) return true;
    return false;
}

// memory-safety-only runs (--crash-only): a case fails only if the process executing it died or a sanitizer reported;
// wrong values are counted but not treated as failures (they belong to the functional property)
inline bool crashy(const std::string &why)
{
    return why.rfind("process died", 0) == 0 || why.rfind("process exited with status", 0) == 0 || why.find("Sanitizer") != std::string::npos;
}

inline uint64_t mix(uint64_t a, uint64_t b)
{
    uint64_t z = a * 0x9E3779B97F4A7C15ull + b + 0x632BE59BD9B4E019ull;
    z = (z ^ (z >> 30)) * 0xBF58476D1CE4E5B9ull; z = (z ^ (z >> 27)) * 0x94D049BB133111EBull; return z ^ (z >> 31);
}

inline volatile uint64_t &progress() { static volatile uint64_t p = 0; return p; } // cases finished (watchdog)

inline void account(const PropDef &p, const Case &c, const Ctx &ctx)
{
    Stats &S = stats();
    progress() = progress() + 1;
    S.evaluations++;
    S.per_prop[p.name]++;
    for (auto *n : ctx.classes) {
        uint64_t &k = S.classes[n];
        k++;
        // samples: the 1st hit of a class is usually the smallest (least telling) case, so it is replaced by the 7th; the 61st is kept too
        if (k == 1 || k == 7 || k == 61) {
            auto &v = S.samples[n];
            std::string d = p.describe ? p.describe(c) : c.str();
            if (k == 7 && !v.empty()) v[0] = d; else v.push_back(d);
        }
    }
    if (ctx.nontrivial) {
        S.nontrivial++;
        if (S.distinct.size() < Stats::DISTINCT_CAP) S.distinct.insert(c.hash()); else S.capped = true;
    }
}

// watchdog for in-process cases: if no case finishes between two ticks the current case is declared
// non-terminating (abort -> the driver attributes the crash to the recorded current case)
inline void watchdog_tick(int)
{
    static uint64_t last = (uint64_t)-1;
    if (progress() == last) {
        const char m[] = "WATCHDOG: no case finished for a whole watchdog period: the current case does not terminate\n";
        if (write(2, m, sizeof m - 1) < 0) {}
        abort();
    }
    last = progress();
}
inline void watchdog_start(int period_s)
{
    struct sigaction sa; memset(&sa, 0, sizeof sa); sa.sa_handler = watchdog_tick; sigaction(SIGALRM, &sa, nullptr);
    struct itimerval it; it.it_interval.tv_sec = period_s; it.it_interval.tv_usec = 0; it.it_value = it.it_interval;
    setitimer(ITIMER_REAL, &it, nullptr);
}

inline int harness_main(int argc, char **argv, const char *harness, std::vector<PropDef> props)
{
    Options &o = opts();
    for (int i = 1; i < argc; i++) {
        std::string a = argv[i];
        auto nxt = [&]() -> std::string { return i + 1 < argc ? argv[++i] : ""; };
        if (a == "--cases") o.cases = strtoull(nxt().c_str(), 0, 0);
        else if (a == "--seed") o.seed = strtoull(nxt().c_str(), 0, 0);
        else if (a == "--worker") o.worker = strtoull(nxt().c_str(), 0, 0);
        else if (a == "--out") o.out = nxt();
        else if (a == "--replay") o.replay = nxt();
        else if (a == "--mt") o.mt = true;
        else if (a == "--only") o.only = nxt();
        else if (a == "--hashdump") o.hashdump = nxt();
        else if (a == "--faildir") o.faildir = nxt();
        else if (a == "--exclude") o.excludes.push_back(nxt());
        else if (a == "--nofork") o.nofork = true;
        else if (a == "--forkall") o.forkall = true;
        else if (a == "--enumerate") o.enumerate = true;
        else if (a == "--crash-only") o.crash_only = true;
        else if (a == "--nworkers") o.nworkers = strtoull(nxt().c_str(), 0, 0);
        else if (a == "--level") o.level = atoi(nxt().c_str());
        else if (a == "--enum-stride") o.enum_stride = std::max<uint64_t>(1, strtoull(nxt().c_str(), 0, 0));
        else if (a == "--casefile") o.casefile = nxt();
        else if (a == "--timeout") fork_timeout() = atoi(nxt().c_str());
        else if (a == "--list") { for (auto &p : props) printf("%s\n", p.name.c_str()); return 0; }
        else { fprintf(stderr, "unknown arg %s\n", a.c_str()); return 2; }
    }
    { std::vector<PropDef> derived; for (auto &p : props) if (p.mt_ok) derived.push_back(concurrent_of(p)); for (auto &d : derived) props.push_back(d); }
    auto t0 = std::chrono::steady_clock::now();
    watchdog_start(fork_timeout() + 60);
    if (!o.casefile.empty()) {
        int fd = open(o.casefile.c_str(), O_RDWR | O_CREAT | O_TRUNC, 0600);
        if (fd >= 0 && ftruncate(fd, CASEFILE_SZ) == 0) {
            void *m = mmap(nullptr, CASEFILE_SZ, PROT_READ | PROT_WRITE, MAP_SHARED, fd, 0);
            if (m != MAP_FAILED) casefile_map() = (char *)m;
        }
        if (fd >= 0) close(fd);
    }

    if (!o.replay.empty()) {
        std::ifstream f(o.replay);
        std::string line;
        int rc_ = 0; bool any = false;
        while (std::getline(f, line)) {
            if (line.empty() || line[0] == '#') continue;
            Case c;
            if (!Case::parse(line, c)) continue;
            const PropDef *pd = nullptr;
            for (auto &p : props) if (p.name == c.prop) pd = &p;
            if (!pd) { fprintf(stderr, "replay: unknown property '%s' in %s\n", c.prop.c_str(), harness); return 2; }
            any = true;
            Ctx ctx;
            bool ok = ((pd->forked || o.forkall) && !o.nofork) ? run_forked(pd->body, c, ctx) : pd->body(c, ctx);
            if (!ok && o.crash_only && !crashy(ctx.why)) ok = true;
            printf("REPLAY %s %s : %s\n", harness, (pd->describe ? pd->describe(c) : c.str()).c_str(), ok ? "holds" : ("FAILS: " + ctx.why).c_str());
            if (!ok) rc_ = 1;
        }
        if (!any) { fprintf(stderr, "replay: no case in %s\n", o.replay.c_str()); return 2; }
        return rc_;
    }

    std::vector<Failure> failures;
    std::vector<std::string> selected;
    { std::stringstream ss(o.only); std::string t; while (std::getline(ss, t, ',')) if (!t.empty()) selected.push_back(t); }
    double wsum = 0;
    auto is_sel = [&](const PropDef &p) {
        const bool ismt = p.name.size() > 3 && p.name.compare(p.name.size() - 3, 3, "@mt") == 0;
        if (ismt != o.mt) return false;
        if (selected.empty()) return true;
        for (auto &s : selected) if (p.name == s || p.name.rfind(s, 0) == 0) return true;
        return false;
    };
    for (auto &p : props) if (is_sel(p)) wsum += p.weight;
    for (auto &p : props) {
        if (!is_sel(p)) continue;
        if (o.enumerate) {
            // exhaustive walk of a finite space, striped over workers; the first failure in enumeration
            // order (small configurations first) is the reported counterexample
            if (!p.enum_count) continue;
            uint64_t n = p.enum_count();
            stats().classes["enumerated-space-size:" + p.name] = n;
            // --enum-stride K: visit every K-th point only (a sample of the space, phase chosen by the seed); K = 1 is the complete walk
            const uint64_t step = (o.nworkers ? o.nworkers : 1) * o.enum_stride;
            for (uint64_t i = o.worker * o.enum_stride + (o.enum_stride > 1 ? mix(o.seed, 17) % o.enum_stride : 0); i < n; i += step) {
                Case c; c.prop = p.name; c.v = p.enum_at(i);
                Ctx ctx;
                casefile_note(c);
                bool ok = ((p.forked || o.forkall) && !o.nofork) ? run_forked(p.body, c, ctx) : p.body(c, ctx);
                if (!ok && o.crash_only && !crashy(ctx.why)) { ok = true; stats().classes["value-mismatch-not-counted-here"]++; }
                account(p, c, ctx);
                if (!ok) {
                    Failure f; f.prop = p.name; f.casestr = c.str(); f.why = ctx.why; f.desc = p.describe ? p.describe(c) : c.str();
                    failures.push_back(f);
                    fprintf(stderr, "[%s] FALSIFIED (enumeration) %s : %s\n   why: %s\n", harness, p.name.c_str(), f.desc.c_str(), f.why.c_str());
                    break;
                }
            }
            continue;
        }
        if (p.enum_count && p.weight <= 0) continue;
        rc::detail::TestParams params;
        params.seed = mix(mix(o.seed, o.worker), std::hash<std::string>()(p.name) & 0xffffffffull);
        params.maxSuccess = (int)std::max<uint64_t>(1, (uint64_t)(o.cases * p.weight / wsum));
        params.maxSize = p.max_size > 0 ? p.max_size : 100;
        params.maxDiscardRatio = 10;
        rc::detail::TestMetadata md; md.id = p.name; md.description = p.name;
        bool seen_fail = false;
        Case lastfail; std::string lastwhy;
        std::vector<Case> recent; std::vector<std::string> lasthist; // in-process runs: the executions preceding a failure (a failure may depend on earlier calls)
        const size_t HIST = 400; size_t rpos = 0; // (state left behind by ANOTHER routine may be hundreds of calls old when it bites)
        auto gen = p.gen();
        // shrinking is bounded: after the first failure at most SHRINK_EVALS further executions or SHRINK_SECONDS of wall time are spent on
        // minimisation; beyond that every candidate counts as passing, which ends rapidcheck's shrink loop at the smallest failing case found
        // so far (only the size of the reported counterexample depends on this budget, never the verdict)
        const uint64_t SHRINK_EVALS = 20000; const double SHRINK_SECONDS = 20.0;
        uint64_t shrink_n = 0; std::chrono::steady_clock::time_point t_fail;
        auto result = rc::detail::checkTestable([&] {
            Case c; c.prop = p.name; c.v = *gen;
            if (seen_fail && (++shrink_n > SHRINK_EVALS || std::chrono::duration<double>(std::chrono::steady_clock::now() - t_fail).count() > SHRINK_SECONDS)) return;
            Ctx ctx;
            casefile_note(c);
            bool ok = ((p.forked || o.forkall) && !o.nofork) ? run_forked(p.body, c, ctx) : p.body(c, ctx);
            if (!ok && o.crash_only && !crashy(ctx.why)) { ok = true; stats().classes["value-mismatch-not-counted-here"]++; }
            if (seen_fail) { stats().shrink_evals++; progress() = progress() + 1; } else account(p, c, ctx);
            if (!ok) {
                if (!seen_fail) t_fail = std::chrono::steady_clock::now();
                seen_fail = true; lastfail = c; lastwhy = ctx.why; lasthist.clear();
                for (size_t q = 0; q < recent.size(); q++) lasthist.push_back(recent[(rpos + q) % recent.size()].str()); // oldest first
            }
            if (recent.size() < HIST) { recent.push_back(c); rpos = 0; } else { recent[rpos] = c; rpos = (rpos + 1) % HIST; }
            RC_ASSERT(ok);
        }, md, params);
        if (seen_fail) {
            Failure f; f.prop = p.name; f.casestr = lastfail.str(); f.why = lastwhy;
            f.desc = p.describe ? p.describe(lastfail) : lastfail.str();
            if (!(p.forked || o.forkall) || o.nofork) f.history = lasthist;
            failures.push_back(f);
            fprintf(stderr, "[%s] FALSIFIED %s : %s\n   why: %s\n", harness, p.name.c_str(), f.desc.c_str(), f.why.c_str());
        } else if (!result.template is<rc::detail::SuccessResult>()) {
            // gave up (too many discards) or similar: a generator problem, never a violation
            std::ostringstream os; rc::detail::printResultMessage(result, os);
            fprintf(stderr, "[%s] property %s did not complete: %s\n", harness, p.name.c_str(), os.str().c_str());
            stats().classes["GENERATOR-GAVE-UP:" + p.name]++;
        }
    }
    double wall = std::chrono::duration<double>(std::chrono::steady_clock::now() - t0).count();
    Stats &S = stats();
    if (!o.hashdump.empty()) {
        FILE *f = fopen(o.hashdump.c_str(), "wb");
        if (f) { for (uint64_t h : S.distinct) fwrite(&h, 8, 1, f); fclose(f); }
    }
    if (!o.out.empty()) {
        std::ofstream f(o.out);
        f << "{\"harness\":\"" << harness << "\",\"seed\":" << o.seed << ",\"worker\":" << o.worker
          << ",\"evaluations\":" << S.evaluations << ",\"shrink_evals\":" << S.shrink_evals
          << ",\"nontrivial\":" << S.nontrivial << ",\"distinct_nontrivial\":" << S.distinct.size()
          << ",\"distinct_capped\":" << (S.capped ? "true" : "false") << ",\"excluded\":" << S.excluded << ",\"wall_s\":" << wall << ",\"classes\":{";
        bool first = true;
        for (auto &kv : S.classes) { f << (first ? "" : ",") << "\"" << jesc(kv.first) << "\":" << kv.second; first = false; }
        f << "},\"per_prop\":{";
        first = true;
        for (auto &kv : S.per_prop) { f << (first ? "" : ",") << "\"" << jesc(kv.first) << "\":" << kv.second; first = false; }
        f << "},\"samples\":{";
        first = true;
        for (auto &kv : S.samples) {
            f << (first ? "" : ",") << "\"" << jesc(kv.first) << "\":[";
            for (size_t i = 0; i < kv.second.size(); i++) f << (i ? "," : "") << "\"" << jesc(kv.second[i]) << "\"";
            f << "]"; first = false;
        }
        f << "},\"failures\":[";
        for (size_t i = 0; i < failures.size(); i++) {
            auto &x = failures[i];
            f << (i ? "," : "") << "{\"prop\":\"" << jesc(x.prop) << "\",\"case\":\"" << jesc(x.casestr) << "\",\"why\":\"" << jesc(x.why) << "\",\"desc\":\"" << jesc(x.desc) << "\",\"history\":[";
            for (size_t q = 0; q < x.history.size(); q++) f << (q ? "," : "") << "\"" << jesc(x.history[q]) << "\"";
            f << "]}";
        }
        f << "]}\n";
    }
    return failures.empty() ? 0 : 1;
}

} // namespace pbt

namespace rc {
template <> struct Arbitrary<pbt::Case> { static Gen<pbt::Case> arbitrary() { return gen::just(pbt::Case()); } };
}
