// Reference Poseidon (t = 12, x^7, 4 + 22 + 4 rounds) written from the round structure, on the
// library's constant tables C, M, P, S (never M_/P_), with u128 arithmetic only.  Also the
// rate-8 / capacity-4 sponge, the Merkle tree, and the inverse of the first rounds used to
// back-solve permutation inputs from a chosen mid-permutation state.
#pragma once
#include "ref.hpp"
#include "poseidon_goldilocks.hpp"

namespace refp {
using namespace ref;
namespace K = PoseidonGoldilocksConstants;

// new[i] = sum_j mat[j][i] * old[j]
static inline void mvp(uint64_t st[12], const Goldilocks::Element m[12][12])
{
    uint64_t o[12];
    for (int i = 0; i < 12; i++) { uint64_t acc = 0; for (int j = 0; j < 12; j++) acc = add(acc, mul(m[j][i].fe, st[j])); o[i] = acc; }
    memcpy(st, o, sizeof o);
}
static inline void perm(uint64_t out[12], const uint64_t in[12])
{
    uint64_t st[12];
    for (int i = 0; i < 12; i++) st[i] = can(in[i]);
    for (int i = 0; i < 12; i++) st[i] = add(st[i], K::C[i].fe);
    for (int r = 0; r < 3; r++) { for (int i = 0; i < 12; i++) st[i] = add(pow7(st[i]), K::C[(r + 1) * 12 + i].fe); mvp(st, K::M); }
    for (int i = 0; i < 12; i++) st[i] = add(pow7(st[i]), K::C[4 * 12 + i].fe);
    mvp(st, K::P);
    for (int r = 0; r < 22; r++) {
        st[0] = add(pow7(st[0]), K::C[5 * 12 + r].fe);
        const Goldilocks::Element *S = &K::S[23 * r];
        uint64_t s0 = 0;
        for (int i = 0; i < 12; i++) s0 = add(s0, mul(st[i], S[i].fe));
        for (int i = 1; i < 12; i++) st[i] = add(st[i], mul(st[0], S[11 + i].fe));
        st[0] = s0;
    }
    for (int r = 0; r < 3; r++) { for (int i = 0; i < 12; i++) st[i] = add(pow7(st[i]), K::C[5 * 12 + 22 + r * 12 + i].fe); mvp(st, K::M); }
    for (int i = 0; i < 12; i++) st[i] = pow7(st[i]);
    mvp(st, K::M);
    memcpy(out, st, sizeof st);
}
// sponge: rate 8, capacity 4; <= 4 elements pass through zero padded
static inline void linear_hash(uint64_t out[4], const uint64_t *in, uint64_t size)
{
    if (size <= 4) { for (uint64_t i = 0; i < 4; i++) out[i] = i < size ? can(in[i]) : 0; return; }
    uint64_t st[12], cap[4] = {0, 0, 0, 0};
    for (uint64_t off = 0; off < size; off += 8) {
        uint64_t blk[12];
        for (int i = 0; i < 8; i++) blk[i] = off + i < size ? in[off + i] : 0;
        for (int i = 0; i < 4; i++) blk[8 + i] = cap[i];
        perm(st, blk);
        for (int i = 0; i < 4; i++) cap[i] = st[i];
    }
    for (int i = 0; i < 4; i++) out[i] = cap[i];
}
static inline uint64_t tree_elems(uint64_t rows) { return 4 * (2 * rows - 1); }
// leaves: 4 words per row (already digests); returns the whole tree buffer
static inline std::vector<uint64_t> merkle(const std::vector<uint64_t> &leaves, uint64_t rows)
{
    std::vector<uint64_t> t(leaves);
    t.resize(tree_elems(rows));
    uint64_t idx = 0, pend = rows;
    while (pend > 1) {
        for (uint64_t i = 0; i < pend / 2; i++) {
            uint64_t blk[12] = {0}, o[12];
            for (int k = 0; k < 8; k++) blk[k] = t[idx + i * 8 + k];
            perm(o, blk);
            for (int k = 0; k < 4; k++) t[idx + (pend + i) * 4 + k] = o[k];
        }
        idx += pend * 4; pend /= 2;
    }
    return t;
}

// ---- inverse of the opening full rounds -------------------------------------------------
static inline uint64_t root7(uint64_t y)
{
    // 7^-1 mod (p-1): p-1 = 2^32 * 3 * 5 * 17 * 257 * 65537, gcd(7, p-1) = 1
    static const uint64_t d = [] { // (initialised once, thread-safely: the reference is also used by concurrent callers)
        // extended Euclid on (7, p-1) with signed 128-bit
        __int128 a = 7, b = (__int128)(PR - 1), x0 = 1, x1 = 0;
        while (b) { __int128 q = a / b, t = a - q * b; a = b; b = t; t = x0 - q * x1; x0 = x1; x1 = t; }
        __int128 m = (__int128)(PR - 1);
        return (uint64_t)(((x0 % m) + m) % m);
    }();
    return pw(y, d);
}
struct Mat { uint64_t a[12][12]; };
static inline Mat inverse_of_mvp(const Goldilocks::Element m[12][12])
{
    // forward map: new[i] = sum_j m[j][i] old[j]  => A[i][j] = m[j][i]
    uint64_t A[12][24];
    for (int i = 0; i < 12; i++) for (int j = 0; j < 12; j++) { A[i][j] = can(m[j][i].fe); A[i][12 + j] = (i == j); }
    for (int c = 0; c < 12; c++) {
        int p = c; while (p < 12 && A[p][c] == 0) p++;
        if (p == 12) { fprintf(stderr, "internal: matrix singular\n"); abort(); }
        if (p != c) for (int k = 0; k < 24; k++) std::swap(A[p][k], A[c][k]);
        uint64_t iv = inv(A[c][c]);
        for (int k = 0; k < 24; k++) A[c][k] = mul(A[c][k], iv);
        for (int r = 0; r < 12; r++) if (r != c && A[r][c]) { uint64_t f = A[r][c]; for (int k = 0; k < 24; k++) A[r][k] = sub(A[r][k], mul(f, A[c][k])); }
    }
    Mat R; for (int i = 0; i < 12; i++) for (int j = 0; j < 12; j++) R.a[i][j] = A[i][12 + j];
    return R;
}
// given the state x that ENTERS linear layer `layer` (1..3: M after full round `layer`; 4: P), return the permutation input
static inline void backsolve(uint64_t in[12], const uint64_t x[12], int layer)
{
    static Mat Minv = inverse_of_mvp(K::M);
    uint64_t cur[12];
    for (int i = 0; i < 12; i++) cur[i] = can(x[i]);
    for (int r = layer; r >= 1; r--) {
        // cur = pow7(z) + C[r*12 + i]
        uint64_t z[12];
        for (int i = 0; i < 12; i++) z[i] = root7(sub(cur[i], K::C[r * 12 + i].fe));
        if (r == 1) { for (int i = 0; i < 12; i++) in[i] = sub(z[i], K::C[i].fe); return; }
        // z = M * prev  => prev = Minv z
        for (int i = 0; i < 12; i++) { uint64_t acc = 0; for (int j = 0; j < 12; j++) acc = add(acc, mul(Minv.a[i][j], z[j])); cur[i] = acc; }
    }
}
// the state entering linear layer `layer` for a given input (used to validate backsolve)
static inline void forward_to_layer(uint64_t x[12], const uint64_t in[12], int layer)
{
    uint64_t st[12];
    for (int i = 0; i < 12; i++) st[i] = add(can(in[i]), K::C[i].fe);
    for (int r = 1; r <= layer; r++) {
        for (int i = 0; i < 12; i++) st[i] = add(pow7(st[i]), K::C[r * 12 + i].fe);
        if (r == layer) break;
        mvp(st, K::M);
    }
    memcpy(x, st, sizeof st);
}
// ---- partial rounds -----------------------------------------------------------------------
// one partial round r (0..21) forward, exactly as in perm()
static inline void partial_round(uint64_t st[12], int r)
{
    st[0] = add(pow7(st[0]), K::C[5 * 12 + r].fe);
    const Goldilocks::Element *S = &K::S[23 * r];
    uint64_t s0 = 0;
    for (int i = 0; i < 12; i++) s0 = add(s0, mul(st[i], S[i].fe));
    for (int i = 1; i < 12; i++) st[i] = add(st[i], mul(st[0], S[11 + i].fe));
    st[0] = s0;
}
// inverse of partial round r: out_i = st_i + t0*S[11+i] (i >= 1), out_0 = t0*S[0] + sum_{i>=1} st_i*S[i], t0 = st_0^7 + C
//   => t0 = (out_0 - sum_{i>=1} out_i*S[i]) / (S[0] - sum_{i>=1} S[11+i]*S[i])
static inline void partial_round_inverse(uint64_t st[12], int r)
{
    const Goldilocks::Element *S = &K::S[23 * r];
    uint64_t num = st[0], den = can(S[0].fe);
    for (int i = 1; i < 12; i++) { num = sub(num, mul(st[i], S[i].fe)); den = sub(den, mul(S[11 + i].fe, S[i].fe)); }
    if (den == 0) { fprintf(stderr, "internal: partial round %d is not invertible this way\n", r); abort(); }
    uint64_t t0 = mul(num, inv(den));
    for (int i = 1; i < 12; i++) st[i] = sub(st[i], mul(t0, S[11 + i].fe));
    st[0] = root7(sub(t0, K::C[5 * 12 + r].fe));
}
// given the state x that ENTERS partial round r (r = 0..21; r = 22: the state leaving the last partial round), return the permutation input
static inline void backsolve_partial(uint64_t in[12], const uint64_t x[12], int r)
{
    static Mat Pinv = inverse_of_mvp(K::P);
    uint64_t st[12], y[12];
    for (int i = 0; i < 12; i++) st[i] = can(x[i]);
    for (int q = r - 1; q >= 0; q--) partial_round_inverse(st, q);
    for (int i = 0; i < 12; i++) { uint64_t acc = 0; for (int j = 0; j < 12; j++) acc = add(acc, mul(Pinv.a[i][j], st[j])); y[i] = acc; }
    backsolve(in, y, 4);
}
static inline void forward_to_partial(uint64_t x[12], const uint64_t in[12], int r)
{
    uint64_t st[12];
    forward_to_layer(st, in, 4);
    mvp(st, K::P);
    for (int q = 0; q < r; q++) partial_round(st, q);
    memcpy(x, st, sizeof st);
}
} // namespace refp
