// Stand-in for the OpenMP runtime (libgomp) so that the HARNESS owns the schedule of every parallel region.
// g++ -fopenmp compiles the library's "#pragma omp parallel for" regions (static schedules are computed inline)
// into calls of exactly these entry points: GOMP_parallel, omp_get_num_threads, omp_get_thread_num,
// omp_get_max_threads, omp_set_num_threads, omp_set_dynamic.  Objects are compiled with -fopenmp but linked
// against this file instead of libgomp.
//
//   mode 0 (sequential): the members of a team run one after another in an order derived from `orderseed`
//                        (a legal schedule of the real program: the regions contain no barriers or other
//                        synchronisation, so any serialisation of the members is an admissible execution)
//   cap > 0:             a team never has more than `cap` members even when more were requested (thread limit, nesting,
//                        dynamic adjustment: the OpenMP specification lets the runtime deliver fewer threads than requested)
//   mode 1 (threads):    members are real pthreads created here (under -fsanitize=thread every
//                        happens-before edge is visible to ThreadSanitizer; no uninstrumented runtime)
#include <pthread.h>
#include <cstdint>
#include <cstdio>
#include <cstdlib>
#include <vector>
#include <atomic>

static thread_local int g_nthreads = 4; // nthreads-var is a per-thread ICV in OpenMP (set by omp_set_num_threads of that thread, inherited by team members)
static int g_mode = 0;
static uint64_t g_orderseed = 0;
static int g_cap = 0; // > 0: deliver at most this many members per team (OpenMP may always deliver fewer threads than requested)
static std::atomic<uint64_t> g_regions{0}, g_multi_regions{0}, g_max_team{0}; // (atomic: application threads may enter regions concurrently)
static thread_local int tl_num = 0;
static thread_local int tl_team = 1;

static uint64_t mix64(uint64_t a, uint64_t b)
{
    uint64_t z = a * 0x9E3779B97F4A7C15ull + b + 0x632BE59BD9B4E019ull;
    z = (z ^ (z >> 30)) * 0xBF58476D1CE4E5B9ull; z = (z ^ (z >> 27)) * 0x94D049BB133111EBull; return z ^ (z >> 31);
}

extern "C" {
int omp_get_max_threads() { return g_nthreads; }
int omp_get_num_threads() { return tl_team; }
int omp_get_thread_num() { return tl_num; }
void omp_set_dynamic(int) {}
void omp_set_num_threads(int n) { if (n > 0) g_nthreads = n; }
int omp_in_parallel() { return tl_team > 1; }

struct Arg { void (*fn)(void *); void *data; int id, team, nthreads; };
static void *tramp(void *p)
{
    Arg *a = (Arg *)p;
    tl_num = a->id; tl_team = a->team; g_nthreads = a->nthreads;
    a->fn(a->data);
    tl_num = 0; tl_team = 1;
    return nullptr;
}
void GOMP_parallel(void (*fn)(void *), void *data, unsigned num_threads, unsigned /*flags*/)
{
    int team = num_threads ? (int)num_threads : g_nthreads;
    if (team < 1) team = 1;
    if (g_cap > 0 && team > g_cap) team = g_cap;
    if (tl_team > 1) team = 1; // nested region: serialised (OpenMP default, nesting disabled)
    const uint64_t region_index = ++g_regions;
    if (team > 1) g_multi_regions++;
    { uint64_t m = g_max_team.load(); while ((uint64_t)team > m && !g_max_team.compare_exchange_weak(m, (uint64_t)team)) {} }
    const int sn = tl_num, st = tl_team;
    if (g_mode == 0) {
        // member order: permutation of 0..team-1 derived from (orderseed, region index)
        std::vector<int> order(team);
        for (int i = 0; i < team; i++) order[i] = i;
        uint64_t s = mix64(g_orderseed, region_index);
        if (g_orderseed == 0) { /* identity */ }
        else if (g_orderseed == 1) { for (int i = 0; i < team; i++) order[i] = team - 1 - i; }
        else for (int i = team - 1; i > 0; i--) { s = mix64(s, i); int j = (int)(s % (uint64_t)(i + 1)); std::swap(order[i], order[j]); }
        for (int k = 0; k < team; k++) { tl_num = order[k]; tl_team = team; fn(data); }
    } else {
        std::vector<pthread_t> th(team);
        std::vector<Arg> args(team);
        for (int k = 1; k < team; k++) { args[k] = {fn, data, k, team, g_nthreads}; pthread_create(&th[k], nullptr, tramp, &args[k]); }
        args[0] = {fn, data, 0, team, g_nthreads};
        tramp(&args[0]);
        for (int k = 1; k < team; k++) pthread_join(th[k], nullptr);
    }
    tl_num = sn; tl_team = st;
}

// harness control
void pbt_shim_config(int mode, uint64_t orderseed) { g_mode = mode; g_orderseed = orderseed; }
void pbt_shim_cap(int cap) { g_cap = cap; }
void pbt_shim_stats(uint64_t *regions, uint64_t *multi, uint64_t *maxteam, int reset)
{
    if (regions) *regions = g_regions.load(); if (multi) *multi = g_multi_regions.load(); if (maxteam) *maxteam = g_max_team.load();
    if (reset) { g_regions = g_multi_regions = g_max_team = 0; }
}
}
