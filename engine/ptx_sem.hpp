#pragma once
#include <cstdint>
#include <cstdlib>
#include <cstddef>
typedef unsigned __int128 ptx_u128;
static thread_local int ptx_cc = -1;           // -1 = undefined (poison)
static inline int ptx_cc_get(){ if (ptx_cc < 0) { __builtin_trap(); } return ptx_cc; }
static inline void ptx_trap(){ abort(); }
#define PTX_add_u64(d,a,b)      do{ d = (uint64_t)(a) + (uint64_t)(b); }while(0)
#define PTX_sub_u64(d,a,b)      do{ d = (uint64_t)(a) - (uint64_t)(b); }while(0)
#define PTX_sub_u32(d,a,b)      do{ d = (uint32_t)((uint32_t)(a) - (uint32_t)(b)); }while(0)
#define PTX_add_cc_u64(d,a,b)   do{ ptx_u128 t=(ptx_u128)(uint64_t)(a)+(uint64_t)(b); d=(uint64_t)t; ptx_cc=(int)(t>>64); }while(0)
#define PTX_sub_cc_u64(d,a,b)   do{ uint64_t x=(a),y=(b); d=x-y; ptx_cc=(x<y); }while(0)
#define PTX_add_cc_u32(d,a,b)   do{ uint64_t t=(uint64_t)(uint32_t)(a)+(uint32_t)(b); d=(uint32_t)t; ptx_cc=(int)(t>>32); }while(0)
#define PTX_addc_u32(d,a,b)     do{ uint64_t t=(uint64_t)(uint32_t)(a)+(uint32_t)(b)+ptx_cc_get(); d=(uint32_t)t; }while(0)
#define PTX_addc_cc_u32(d,a,b)  do{ uint64_t t=(uint64_t)(uint32_t)(a)+(uint32_t)(b)+ptx_cc_get(); d=(uint32_t)t; ptx_cc=(int)(t>>32); }while(0)
#define PTX_sub_cc_u32(d,a,b)   do{ uint32_t x=(uint32_t)(a),y=(uint32_t)(b); d=(uint32_t)(x-y); ptx_cc=(x<y); }while(0)
#define PTX_subc_u32(d,a,b)     do{ uint64_t x=(uint32_t)(a); uint64_t y=(uint64_t)(uint32_t)(b)+ptx_cc_get(); d=(uint32_t)(x-y); }while(0)
#define PTX_subc_cc_u32(d,a,b)  do{ uint64_t x=(uint32_t)(a); uint64_t y=(uint64_t)(uint32_t)(b)+ptx_cc_get(); d=(uint32_t)(x-y); ptx_cc=(x<y); }while(0)
#define PTX_mul_lo_u32(d,a,b)   do{ d=(uint32_t)((uint64_t)(uint32_t)(a)*(uint32_t)(b)); }while(0)
#define PTX_mul_hi_u32(d,a,b)   do{ d=(uint32_t)(((uint64_t)(uint32_t)(a)*(uint32_t)(b))>>32); }while(0)
#define PTX_mad_lo_cc_u32(d,a,b,c)  do{ uint64_t t=(uint64_t)(uint32_t)((uint64_t)(uint32_t)(a)*(uint32_t)(b))+(uint32_t)(c); d=(uint32_t)t; ptx_cc=(int)(t>>32); }while(0)
#define PTX_madc_lo_cc_u32(d,a,b,c) do{ uint64_t t=(uint64_t)(uint32_t)((uint64_t)(uint32_t)(a)*(uint32_t)(b))+(uint32_t)(c)+ptx_cc_get(); d=(uint32_t)t; ptx_cc=(int)(t>>32); }while(0)
#define PTX_madc_hi_cc_u32(d,a,b,c) do{ uint64_t t=(uint64_t)(uint32_t)(((uint64_t)(uint32_t)(a)*(uint32_t)(b))>>32)+(uint32_t)(c)+ptx_cc_get(); d=(uint32_t)t; ptx_cc=(int)(t>>32); }while(0)
#define PTX_madc_hi_u32(d,a,b,c)    do{ uint64_t t=(uint64_t)(uint32_t)(((uint64_t)(uint32_t)(a)*(uint32_t)(b))>>32)+(uint32_t)(c)+ptx_cc_get(); d=(uint32_t)t; }while(0)
#define PTX_mov_b64(d,a)        do{ d=(uint64_t)(a); }while(0)
#define PTX_selp_u64(d,a,b,p)   do{ d = (p) ? (uint64_t)(a) : (uint64_t)(b); }while(0)
#define PTX_setp_eq_u32(p,a,b)  do{ p = ((uint32_t)(a)==(uint32_t)(b)); }while(0)
#define PTX_setp_ne_u32(p,a,b)  do{ p = ((uint32_t)(a)!=(uint32_t)(b)); }while(0)
#define PTX_setp_ne_s32(p,a,b)  do{ p = ((int32_t)(a)!=(int32_t)(b)); }while(0)
