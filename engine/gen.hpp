// rapidcheck generators for 64-bit field-element representations, built so that the narrow
// correction windows of the kernels (relative measure 2^-32 under uniform sampling) are hit
// with probability O(1): boundary classes, 32-bit structure classes and *solved* second
// operands (pick the sum / difference / product residue first, solve for the operand).
#pragma once
#include <rapidcheck.h>
#include "ref.hpp"

namespace g {
using rc::Gen;
typedef unsigned __int128 u128;
static const uint64_t PR = ref::PR;
static const int NOM = 100; // rapidcheck's nominal size: full-range integers

inline Gen<uint64_t> uni64() { return rc::gen::resize(NOM, rc::gen::arbitrary<uint64_t>()); }
// uniform in [lo, hi] inclusive (hi - lo < 2^64 - 1)
inline Gen<uint64_t> range(uint64_t lo, uint64_t hi)
{
    if (lo == 0 && hi == UINT64_MAX) return uni64();
    uint64_t span = hi - lo + 1;
    return rc::gen::map(uni64(), [lo, span](uint64_t x) { return lo + x % span; });
}
inline Gen<int> irange(int lo, int hi) // inclusive
{
    return rc::gen::resize(NOM, rc::gen::inRange<int>(lo, hi + 1));
}
inline Gen<uint64_t> elem(std::vector<uint64_t> v) { return rc::gen::elementOf(std::move(v)); }
inline Gen<uint64_t> delta(uint64_t center, uint64_t rad)
{
    return rc::gen::map(range(0, 2 * rad), [center, rad](uint64_t d) { return center + d - rad; }); // wraps mod 2^64 on purpose
}

static const uint64_t H32[] = {0, 1, 2, 0x7FFFFFFFull, 0x80000000ull, 0x80000001ull, 0xFFFFFFFEull, 0xFFFFFFFFull};
inline Gen<uint64_t> half32()
{
    return rc::gen::weightedOneOf<uint64_t>({{3, elem(std::vector<uint64_t>(H32, H32 + 8))},
                                             {1, range(0, 0xFFFFFFFFull)}});
}
// 32-bit structured 64-bit word
inline Gen<uint64_t> hilo()
{
    return rc::gen::apply([](uint64_t h, uint64_t l) { return (h << 32) | l; }, half32(), half32());
}
inline Gen<uint64_t> canon_edge()
{
    return elem({0, 1, 2, 3, PR - 1, PR - 2, PR - 3, (PR - 1) / 2, (PR + 1) / 2, (PR - 1) / 2 - 1, 0xFFFFFFFFull, 0x100000000ull, 0xFFFFFFFEull, 0xFFFFFFFF00000000ull - 0xFFFFFFFFull});
}
inline Gen<uint64_t> noncanon()
{
    return rc::gen::weightedOneOf<uint64_t>({{2, range(PR, UINT64_MAX)},
                                             {2, elem({PR, PR + 1, PR + 2, UINT64_MAX, UINT64_MAX - 1, UINT64_MAX - 2, PR + 0x7FFFFFFFull})}});
}
inline Gen<uint64_t> pow2ish()
{
    return rc::gen::apply([](int k, uint64_t d, int mode) -> uint64_t {
        uint64_t base = mode == 0 ? (1ull << (k & 63)) : ((uint64_t)(k & 0xFF) << 32) * (mode == 1 ? 1 : 0x01010101ull);
        return base + d - 4;
    }, irange(0, 255), range(0, 8), irange(0, 2));
}
// any 64-bit representation, all classes
inline Gen<uint64_t> fe()
{
    return rc::gen::weightedOneOf<uint64_t>({{4, uni64()},
                                             {2, canon_edge()},
                                             {3, noncanon()},
                                             {3, hilo()},
                                             {2, pow2ish()},
                                             {1, delta(1ull << 63, 4)},
                                             {1, delta(PR, 6)},
                                             {1, delta(0, 6)}});
}
inline Gen<uint64_t> fe_canon() { return rc::gen::map(fe(), [](uint64_t x) { return x % PR; }); }
inline Gen<uint64_t> fe_nonzero()
{
    return rc::gen::map(fe(), [](uint64_t x) { return x % PR == 0 ? x + 1 : x; });
}
// optionally lift a canonical value < 2^32-1 to its +p alias
inline uint64_t lift(uint64_t x, bool doit) { return (doit && x < 0xFFFFFFFFull) ? x + PR : x; }

typedef std::pair<uint64_t, uint64_t> P2;

// (a, b) with a + b (as integers, mod 2^64) next to a carry threshold
inline Gen<P2> pair_add_solved()
{
    // targets modulo 2^64: 2^64 (first carry), p and 2p-2^64.. (canonical edge), 2^64+p (second carry)
    return rc::gen::apply([](uint64_t a, uint64_t T, uint64_t d) -> P2 {
        uint64_t b = T + d - 6 - a;
        return {a, b};
    }, fe(), elem({0, PR, 2 * PR /*mod 2^64*/, 0xFFFFFFFFull, 0x1FFFFFFFEull, 0x100000000ull, (uint64_t)0 - 0xFFFFFFFFull, PR - 0xFFFFFFFFull}), range(0, 12));
}
// (a, b) with a - b next to a borrow threshold
inline Gen<P2> pair_sub_solved()
{
    return rc::gen::apply([](uint64_t a, uint64_t T, uint64_t d) -> P2 {
        uint64_t b = a - (T + d - 6);
        return {a, b};
    }, fe(), elem({0, 0xFFFFFFFFull, (uint64_t)0 - 0xFFFFFFFFull, PR, (uint64_t)0 - PR, 0x1FFFFFFFEull, (uint64_t)0 - 0x1FFFFFFFEull, 0x100000000ull}), range(0, 12));
}
// (a, b) with a*b mod p in a chosen window (residue targeting); a non-zero
inline Gen<P2> pair_mul_residue()
{
    return rc::gen::apply([](uint64_t a, uint64_t c, uint64_t w, bool la, bool lb) -> P2 {
        if (a % PR == 0) a = 7;
        uint64_t r = (c + w) % PR;
        uint64_t b = ref::mul(r, ref::inv(a));
        return {lift(a, la), lift(b, lb)};
    }, fe(), elem({0, 0xFFFFFFFFull, 0x100000000ull, 0x200000000ull, PR - 0x100000000ull, PR - 1, PR - 0xFFFFFFFFull, 0xFFFFFFFEull}),
       rc::gen::weightedOneOf<uint64_t>({{2, range(0, 8)}, {1, range(0, 0x1FFFFFFFFull)}, {1, rc::gen::map(range(0, 8), [](uint64_t x) { return (uint64_t)0 - x; })}}),
       rc::gen::arbitrary<bool>(), rc::gen::arbitrary<bool>());
}
// (a, b) with the 128-bit product's high word following a 32-bit edge pattern
inline Gen<P2> pair_mul_hipattern()
{
    return rc::gen::apply([](uint64_t hh, uint64_t hl, uint64_t lo, uint64_t a) -> P2 {
        uint64_t hi = (hh << 32) | hl;
        if (a <= hi) a = hi + 1;
        if (a == 0) a = 1;
        if (hi == UINT64_MAX) { hi--; a = UINT64_MAX; }
        u128 N = ((u128)hi << 64) | lo;
        uint64_t b = (uint64_t)(N / a);
        // try to land exactly on the pattern when possible: round up so that a*b >= N
        return {a, b};
    }, half32(), half32(), hilo(), fe());
}
// halves from the edge set
inline Gen<P2> pair_hilo() { return rc::gen::pair(hilo(), hilo()); }

inline Gen<P2> pair_indep() { return rc::gen::pair(fe(), fe()); }
// operands in a RELATION: equal, equal residue in the other representation, negatives, inverses, doubles, complements to 2^64 / to p / to a power of two
inline Gen<P2> pair_related()
{
    return rc::gen::apply([](uint64_t a, int rel, int k, uint64_t u) -> P2 {
        switch (rel) {
        case 0: return {a, a};
        case 1: return {a, a >= PR ? a - PR : (a < 0xFFFFFFFFull ? a + PR : a)};              // same residue, other representation
        case 2: return {a, ref::neg(a)};                                                        // a + b == 0 (mod p), b canonical
        case 3: return {a, (uint64_t)0 - a};                                                    // a + b == 2^64
        case 4: return {a, PR - a};                                                             // a + b == p as integers (wraps when a > p)
        case 5: return {a, a % PR ? ref::inv(a) : 1};                                           // a * b == 1
        case 6: return {a, ref::add(a, a)};                                                     // b == 2a
        case 7: return {a, ((uint64_t)1 << (k & 63)) - a};                                      // a + b == 2^k
        case 8: return {a, a % PR ? ref::mul(((uint64_t)1 << (k & 63)) % PR, ref::inv(a)) : 0}; // a * b == 2^k (mod p)
        case 9: return {a, ~a};                                                                 // bitwise complement
        case 10: return {a, a ^ 0x8000000000000000ull};                                         // differ in the sign bit only
        // relations between the 32-bit WORDS of the two operands (a second uniform value supplies the free words)
        case 11: return {a, (((uint64_t)0x100000000ull - (a >> 32)) << 32) | (u & 0xFFFFFFFFull)};      // hi(a) + hi(b) == 2^32
        case 12: return {a, (u & 0xFFFFFFFF00000000ull) | ((0x100000000ull - (a & 0xFFFFFFFFull)) & 0xFFFFFFFFull)}; // lo(a) + lo(b) == 2^32
        case 13: return {a, (a & 0xFFFFFFFF00000000ull) | (u & 0xFFFFFFFFull)};                  // same high word
        case 14: return {a, (u & 0xFFFFFFFF00000000ull) | (a & 0xFFFFFFFFull)};                  // same low word
        case 15: return {a, (a << 32) | (a >> 32)};                                              // words swapped
        case 16: return {a, ((0xFFFFFFFFull - (a >> 32)) << 32) | (u & 0xFFFFFFFFull)};          // hi(a) + hi(b) == 2^32 - 1
        default: return {a, (u & 0xFFFFFFFF00000000ull) | (0xFFFFFFFFull - (a & 0xFFFFFFFFull))}; // lo(a) + lo(b) == 2^32 - 1
        }
    }, fe(), irange(0, 17), irange(0, 63), uni64());
}

// the low 64 bits of the INTEGER product a*b are chosen (tiny, just below 2^64, a multiple of 2^32, around 2^32): a = eps * b^-1 (mod 2^64)
inline Gen<P2> pair_mul_lowword()
{
    return rc::gen::apply([](uint64_t b, uint64_t u, int k) -> P2 {
        if (b == 0) b = 3;
        uint64_t bo = b; int sh = 0; while (!(bo & 1)) { bo >>= 1; sh++; }
        uint64_t x = bo; for (int i = 0; i < 6; i++) x *= 2 - bo * x; // bo^-1 mod 2^64
        uint64_t eps;
        switch (k) { case 0: eps = u % 64; break; case 1: eps = (uint64_t)0 - 1 - u % 64; break; case 2: eps = (u >> 32) << 32; break; case 3: eps = 0x100000000ull + (u % 5) - 2; break;
                     case 4: eps = u >> 32; break; case 5: eps = 0xFFFFFFFF00000000ull + (u % 5) - 2; break; default: eps = (u | 0xFFFFFFFF00000000ull); break; }
        uint64_t a = (eps >> sh) * x; if (sh) a &= (~(uint64_t)0) >> sh; // a*b = (eps >> sh) << sh  (mod 2^64)
        return (u >> 63) ? P2{a, b} : P2{b, a};
    }, fe(), uni64(), irange(0, 6));
}

inline Gen<P2> pair_add() { return rc::gen::weightedOneOf<P2>({{3, pair_indep()}, {4, pair_add_solved()}, {1, pair_hilo()}, {1, pair_related()}}); }
inline Gen<P2> pair_sub() { return rc::gen::weightedOneOf<P2>({{3, pair_indep()}, {4, pair_sub_solved()}, {1, pair_hilo()}, {1, pair_related()}}); }
inline Gen<P2> pair_mul() { return rc::gen::weightedOneOf<P2>({{3, pair_indep()}, {3, pair_mul_residue()}, {3, pair_mul_hipattern()}, {2, pair_hilo()}, {1, pair_related()}, {1, pair_mul_lowword()}}); }
inline Gen<P2> pair_any() { return rc::gen::weightedOneOf<P2>({{2, pair_indep()}, {2, pair_add_solved()}, {2, pair_sub_solved()}, {2, pair_mul_residue()}, {2, pair_mul_hipattern()}, {1, pair_hilo()}, {1, pair_related()}, {1, pair_mul_lowword()}}); }

// n field elements
inline Gen<std::vector<uint64_t>> fe_vec(size_t n) { return rc::gen::container<std::vector<uint64_t>>(n, fe()); }

// concatenate generators of vectors into one payload
template <typename... Gs>
inline Gen<std::vector<uint64_t>> concat(Gs... gs)
{
    return rc::gen::apply([](const typename Gs::ValueType &... vs) { // not used generically
        std::vector<uint64_t> out;
        (void)std::initializer_list<int>{(out.insert(out.end(), vs.begin(), vs.end()), 0)...};
        return out;
    }, gs...);
}
} // namespace g
