#!/bin/sh
# Offline setup after a fresh restore: pre-build every harness for /repo's current tree (content-hashed cache).
cd "$(dirname "$0")" || exit 1
exec ./check --build-all
